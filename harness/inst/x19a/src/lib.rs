//! C19 instantiations of the rank-1 fast path for element type f64
vh_core::c19_all!(run, f64, float);
