"""Execution legs: how a driver is built and run (native, unoptimised, Miri, ASan,
valgrind memcheck, TSan). One sanitizer family per build; the same driver / workload per
build. Imported by ./check.

A sanitizer / interpreter report is a violation of the property whose workload was running
only if the report points into the repository under test (its source path appears in the
report); a report entirely inside the harness is a harness error (inconclusive)."""
import json
import hashlib
import os
import re
import shutil
import subprocess
import time
from concurrent.futures import ThreadPoolExecutor

GUARD = "ndarray_interp_verif"


def run_leg(C, prop, conf, tier, leg, scale, opts, replay_case):
    if leg in ("native", "o0"):
        return native_leg(C, prop, conf, tier, leg, scale, opts, replay_case)
    if leg == "miri":
        return miri_leg(C, prop, conf, tier, leg, scale, opts)
    if leg == "asan":
        return san_leg(C, prop, conf, tier, leg, scale, opts, "address")
    if leg == "tsan":
        return san_leg(C, prop, conf, tier, leg, scale, opts, "thread")
    if leg == "valgrind":
        return valgrind_leg(C, prop, conf, tier, leg, scale, opts)
    raise C.Inconclusive(f"unknown leg {leg}")


def collect(C, prop, conf, tier, leg, od, rc, out, wall, oracle_wanted, extra_info=None):
    cov, viols = C.read_driver_results(od, prop, leg)
    if cov is None:
        raise C.Inconclusive(f"driver for {prop} leg {leg} produced no coverage (exit {rc}):\n" + out[-3000:])
    oracle = None
    if oracle_wanted:
        oracle = C.run_oracle(od)
        for v in oracle["violations"]:
            v["leg"] = leg
            viols.append(v)
        ev = max(1, oracle["events"])
        errs = {k: v for k, v in oracle["counts"].items() if k.startswith("checker-error")}
        if errs:
            raise C.Inconclusive(f"offline checker errors: {errs}")
        if oracle["inconclusive"] > 0.05 * ev + 5:
            raise C.Inconclusive(f"offline checker: {oracle['inconclusive']} of {ev} events inconclusive")
        for f in os.listdir(od):
            if f.startswith("log-"):
                os.remove(os.path.join(od, f))
    info = {"leg": leg, "evaluations": cov["coverage"]["evaluations"],
            "violations": len(viols), "wall_s": round(wall, 2)}
    if extra_info:
        info.update(extra_info)
    return cov, viols, oracle, info


def native_leg(C, prop, conf, tier, leg, scale, opts, replay_case):
    if conf.get("compile_assert") and leg == "native":
        try:
            bindir = C.cargo_build(leg, [conf["bin"]])
        except C.Inconclusive as e:
            msg = str(e)
            if "E0277" in msg and ("Send" in msg or "Sync" in msg) and "c17" in msg:
                # the compile-time clause of the property: a type-level fact, reported as such
                od = C.out_dir(prop, tier, leg)
                v = {"sig": f"{prop}:not-send-sync", "what": "interpolator over thread-safe storage is not Send + Sync "
                     "(compile-time assertion of the driver failed)", "case": None, "leg": leg,
                     "replay": {"compiler_output": msg[-4000:]}}
                cov = {"property_id": prop, "tier": tier, "seed": C.SEED,
                       "coverage": {"evaluations": 1, "distinct_nontrivial": 0, "distinct": 0,
                                    "rule": "compile-time assertion", "samples": [], "counters": {},
                                    "histograms": {}}}
                return cov, [v], None, {"leg": leg, "evaluations": 1, "violations": 1, "wall_s": 0.0}
            raise
    else:
        bindir = C.cargo_build(leg, [conf["bin"]])
    od, rc, out, wall = C.run_driver(bindir, conf["bin"], prop, tier, leg, scale=scale,
                                     only=replay_case, extra_args=opts.get("args"),
                                     timeout=opts.get("timeout", 7200))
    if rc != 0:
        raise C.Inconclusive(f"driver {conf['bin']} leg {leg} exited with {rc} (harness error):\n" + out[-3000:])
    return collect(C, prop, conf, tier, leg, od, rc, out, wall, conf.get("oracle", False))


def merge_cov(covs):
    """merge coverage.json of several shard processes"""
    base = json.loads(json.dumps(covs[0]))
    c = base["coverage"]
    for other in covs[1:]:
        o = other["coverage"]
        for k in ("evaluations", "distinct", "distinct_nontrivial"):
            c[k] = c.get(k, 0) + o.get(k, 0)
        for k, v in o.get("counters", {}).items():
            c.setdefault("counters", {})[k] = c.get("counters", {}).get(k, 0) + v
        for h, m in o.get("histograms", {}).items():
            d = c.setdefault("histograms", {}).setdefault(h, {})
            for k, v in m.items():
                d[k] = d.get(k, 0) + v
        for k, v in o.get("maxima", {}).items():
            c.setdefault("maxima", {})[k] = max(c.get("maxima", {}).get(k, v), v)
        c["samples"] = (c.get("samples", []) + o.get("samples", []))[:8]
    return base


def repo_frames(C, text):
    """lines of a report that point into the repository under test"""
    pat = re.escape(C.REPO.rstrip("/")) + r"/src/[\w/]+\.rs:\d+"
    return sorted(set(re.findall(pat, text)))


def run_shards(C, cmd_for, prop, tier, leg, shards, timeout):
    """run `shards` processes in parallel; cmd_for(i, out_dir) -> (cmd, env)"""
    ods = []
    for i in range(shards):
        tag = "" if C.REPO == "/repo" else "-" + hashlib.sha1(C.REPO.encode()).hexdigest()[:10]
        d = os.path.join(C.VERIF, "run", "out", f"{prop}-{tier}-{leg}-{C.SEED}{tag}-s{i}")
        shutil.rmtree(d, ignore_errors=True)
        os.makedirs(d)
        ods.append(d)

    def one(i):
        cmd, env, cwd = cmd_for(i, ods[i])
        t0 = time.time()
        try:
            p = subprocess.run(cmd, cwd=cwd, env=env, stdout=subprocess.PIPE, stderr=subprocess.STDOUT,
                               text=True, timeout=timeout)
            return i, p.returncode, p.stdout, time.time() - t0
        except subprocess.TimeoutExpired as e:
            return i, -999, (e.stdout or "") if isinstance(e.stdout, str) else "", time.time() - t0

    with ThreadPoolExecutor(max_workers=min(shards, C.JOBS)) as ex:
        results = list(ex.map(one, range(shards)))
    return ods, results


def sanitizer_outcome(C, prop, leg, tool, marker, results, ods):
    """turn process results into (covs, violations); raises Inconclusive for harness errors"""
    covs, viols = [], []
    for (i, rc, out, wall) in results:
        if rc == -999:
            raise C.Inconclusive(f"watchdog: {tool} shard {i} timed out")
        cov, v = C.read_driver_results(ods[i], prop, leg)
        viols.extend(v)
        reported = marker(out, rc)
        if reported:
            frames = repo_frames(C, out)
            tail = "\n".join(out.splitlines()[-80:])
            if frames or "ndarray_interp" in out:
                first = frames[0] if frames else "ndarray_interp"
                viols.append({"sig": f"{prop}:{tool}-report", "leg": leg, "case": None,
                              "what": f"{tool} reported an error reached through the repository ({first}): "
                                      + reported[:300],
                              "replay": {"tool": tool, "shard": i, "frames": frames[:10], "report_tail": tail[-6000:]}})
                continue
            raise C.Inconclusive(f"{tool} report without a frame in the repository under test (harness error):\n" + tail[-3000:])
        if rc != 0:
            raise C.Inconclusive(f"{tool} shard {i} exited with {rc} without a report:\n" + "\n".join(out.splitlines()[-40:]))
        if cov is None:
            raise C.Inconclusive(f"{tool} shard {i} produced no coverage")
        covs.append(cov)
    if not covs:
        # every shard reported: still need a coverage record
        covs = [{"property_id": prop, "coverage": {"evaluations": 0, "distinct": 0, "distinct_nontrivial": 0,
                                                   "samples": [], "counters": {}, "histograms": {}, "rule": ""}}]
    return covs, viols


def miri_leg(C, prop, conf, tier, leg, scale, opts):
    bd = C.sync_tree()
    shards = int(opts.get("shards", 1))
    flags = "-Zmiri-deterministic-floats -Zmiri-disable-isolation"
    if opts.get("miri_flags"):
        flags += " " + opts["miri_flags"]
    # the hook is off in this leg: Miri itself is the oracle for the unchecked cast
    rustflags = "" if opts.get("no_hook", True) else f"--cfg {GUARD}"
    env = C.env_offline({"MIRIFLAGS": flags, "RUSTFLAGS": rustflags,
                         "CARGO_TARGET_DIR": os.path.join(bd, "target-miri")})
    t0 = time.time()
    pre = subprocess.run(["cargo", "+nightly", "miri", "setup"], cwd=bd, env=env, stdout=subprocess.PIPE,
                         stderr=subprocess.STDOUT, text=True)
    if pre.returncode != 0:
        raise C.Inconclusive("cargo miri setup failed:\n" + pre.stdout[-2000:])

    def cmd_for(i, od):
        cmd = ["cargo", "+nightly", "miri", "run", "--offline", "-q", "-p", "vhb", "--bin", conf["bin"], "--",
               "--tier", tier, "--seed", str(C.SEED), "--out", od, "--threads", "1", "--scale", str(scale),
               "--leg", leg, "--shard", str(i), "--shards", str(shards)]
        for k, v in (opts.get("args") or {}).items():
            cmd += ["--" + k, str(v)]
        return cmd, env, bd

    # build once (first shard alone) so that the parallel shards do not fight over the lock
    ods, results = run_shards(C, cmd_for, prop, tier, leg, shards, opts.get("timeout", 3600))
    wall = time.time() - t0

    def marker(out, rc):
        m = re.search(r"error: Undefined Behavior:.*|error: unsupported operation:.*|error: the evaluated program.*", out)
        return m.group(0) if m else None

    covs, viols = sanitizer_outcome(C, prop, leg, "miri", marker, results, ods)
    cov = merge_cov(covs)
    C.log(f"[miri] {prop}: {shards} shard(s), evaluations={cov['coverage']['evaluations']} "
          f"reports={sum(1 for v in viols if 'miri-report' in v.get('sig', ''))} in {wall:.1f}s")
    info = {"leg": leg, "tool": "miri (UB / data-race interpreter)", "flags": flags, "shards": shards,
            "evaluations": cov["coverage"]["evaluations"], "violations": len(viols), "wall_s": round(wall, 2),
            "counters": cov["coverage"].get("counters", {})}
    return cov, viols, None, info


def san_leg(C, prop, conf, tier, leg, scale, opts, which):
    bd = C.sync_tree()
    triple = "x86_64-unknown-linux-gnu"
    tdir = os.path.join(bd, "target-" + leg)
    rustflags = f"--cfg {GUARD} -Zsanitizer={which} -Cforce-frame-pointers=yes"
    cmd = ["cargo", "+nightly", "build", "--offline", "--release", "-p", "vhb", "--bin", conf["bin"],
           "--target", triple]
    if which == "thread":
        cmd += ["-Zbuild-std"]
    env = C.env_offline({"RUSTFLAGS": rustflags, "CARGO_TARGET_DIR": tdir})
    t0 = time.time()
    p = subprocess.run(cmd, cwd=bd, env=env, stdout=subprocess.PIPE, stderr=subprocess.STDOUT, text=True)
    if p.returncode != 0:
        raise C.Inconclusive(f"{leg} build failed:\n" + "\n".join(p.stdout.splitlines()[-40:]))
    C.log(f"[build:{leg}] {conf['bin']} ok in {time.time() - t0:.1f}s")
    binpath = os.path.join(tdir, triple, "release", conf["bin"])
    shards = int(opts.get("shards", 4))
    renv = dict(os.environ)
    if which == "address":
        renv["ASAN_OPTIONS"] = "halt_on_error=1:detect_leaks=0:exitcode=77:abort_on_error=0"
    else:
        renv["TSAN_OPTIONS"] = "halt_on_error=1:exitcode=66:second_deadlock_stack=1"

    def cmd_for(i, od):
        c = [binpath, "--tier", tier, "--seed", str(C.SEED), "--out", od, "--threads", str(opts.get("threads", 1)),
             "--scale", str(scale), "--leg", leg, "--shard", str(i), "--shards", str(shards)]
        for k, v in (opts.get("args") or {}).items():
            c += ["--" + k, str(v)]
        return c, renv, C.VERIF

    ods, results = run_shards(C, cmd_for, prop, tier, leg, shards, opts.get("timeout", 3600))
    wall = time.time() - t0
    tool = "AddressSanitizer" if which == "address" else "ThreadSanitizer"

    def marker(out, rc):
        m = re.search(r"(ERROR: AddressSanitizer:.*|WARNING: ThreadSanitizer:.*)", out)
        return m.group(0) if m else None

    covs, viols = sanitizer_outcome(C, prop, leg, tool, marker, results, ods)
    cov = merge_cov(covs)
    C.log(f"[{leg}] {prop}: {shards} shard(s), evaluations={cov['coverage']['evaluations']} in {wall:.1f}s")
    info = {"leg": leg, "tool": tool, "shards": shards, "evaluations": cov["coverage"]["evaluations"],
            "violations": len(viols), "wall_s": round(wall, 2), "counters": cov["coverage"].get("counters", {})}
    return cov, viols, None, info


def valgrind_leg(C, prop, conf, tier, leg, scale, opts):
    bindir = C.cargo_build("native", [conf["bin"]])
    binpath = os.path.join(bindir, conf["bin"])
    shards = int(opts.get("shards", 8))
    t0 = time.time()

    def cmd_for(i, od):
        c = ["valgrind", "--tool=memcheck", "--error-exitcode=9", "--quiet", "--num-callers=30",
             "--track-origins=yes", "--leak-check=no",
             binpath, "--tier", tier, "--seed", str(C.SEED), "--out", od, "--threads", "1",
             "--scale", str(scale), "--leg", leg, "--shard", str(i), "--shards", str(shards)]
        for k, v in (opts.get("args") or {}).items():
            c += ["--" + k, str(v)]
        return c, dict(os.environ), C.VERIF

    ods, results = run_shards(C, cmd_for, prop, tier, leg, shards, opts.get("timeout", 3600))
    wall = time.time() - t0

    def marker(out, rc):
        m = re.search(r"==\d+== (Invalid (read|write).*|Conditional jump or move depends on uninitialised.*|"
                      r"Use of uninitialised value.*|Invalid free.*|Mismatched free.*|Source and destination overlap.*)", out)
        if m:
            return m.group(1)
        return "valgrind error exit" if rc == 9 else None

    covs, viols = sanitizer_outcome(C, prop, leg, "memcheck", marker, results, ods)
    cov = merge_cov(covs)
    C.log(f"[valgrind] {prop}: {shards} shard(s), evaluations={cov['coverage']['evaluations']} in {wall:.1f}s")
    info = {"leg": leg, "tool": "valgrind memcheck", "shards": shards,
            "evaluations": cov["coverage"]["evaluations"], "violations": len(viols), "wall_s": round(wall, 2),
            "counters": cov["coverage"].get("counters", {})}
    return cov, viols, None, info
