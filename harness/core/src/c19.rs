//! C19 - enumeration of the instantiations of the rank-1 fast path (the unchecked cast).
//! The macros below are expanded once per element type in the `inst/x19*` crates so that
//! the four element types compile in parallel.

use crate::json::J;
use crate::report::Ev;

pub trait Bits: Copy + std::fmt::Debug + PartialOrd + 'static {
    const NAME: &'static str;
    fn b(self) -> u64;
    fn from_i(i: i64) -> Self;
    /// a query value inside [0, 2]
    fn query(k: usize) -> Self;
}

impl Bits for f64 {
    const NAME: &'static str = "f64";
    fn b(self) -> u64 {
        self.to_bits()
    }
    fn from_i(i: i64) -> Self {
        i as f64
    }
    fn query(k: usize) -> Self {
        [0.5, 1.75][k % 2]
    }
}
impl Bits for f32 {
    const NAME: &'static str = "f32";
    fn b(self) -> u64 {
        self.to_bits() as u64
    }
    fn from_i(i: i64) -> Self {
        i as f32
    }
    fn query(k: usize) -> Self {
        [0.5, 1.75][k % 2]
    }
}
impl Bits for i32 {
    const NAME: &'static str = "i32";
    fn b(self) -> u64 {
        self as u32 as u64
    }
    fn from_i(i: i64) -> Self {
        i as i32
    }
    fn query(k: usize) -> Self {
        [1, 2][k % 2]
    }
}
impl Bits for i64 {
    const NAME: &'static str = "i64";
    fn b(self) -> u64 {
        self as u64
    }
    fn from_i(i: i64) -> Self {
        i
    }
    fn query(k: usize) -> Self {
        [1, 2][k % 2]
    }
}

/// cast events of the current thread since the last call (empty without the hook)
pub fn take_casts() -> Vec<(String, String, bool)> {
    #[cfg(ndarray_interp_verif)]
    {
        ndarray_interp::verif::take_cast_events()
            .into_iter()
            .map(|e| (e.from.to_string(), e.to.to_string(), e.is_identity()))
            .collect()
    }
    #[cfg(not(ndarray_interp_verif))]
    {
        Vec::new()
    }
}

pub fn hook_enabled() -> bool {
    cfg!(ndarray_interp_verif)
}

/// bookkeeping for one instantiation
pub struct Inst<'a> {
    pub ev: &'a mut Ev,
    pub name: String,
    pub id: u64,
}

impl Inst<'_> {
    pub fn begin(&mut self) {
        self.ev.case(crate::rng::fnv(self.name.as_bytes()), true);
        self.ev.count("instantiation", &self.name);
        let _ = take_casts();
    }
    /// check the cast log after a call: `expected` casts, all identities
    pub fn casts(&mut self, call: &str, expected: usize) {
        let c = take_casts();
        if !hook_enabled() {
            return;
        }
        self.ev.add("cast_events", c.len() as u64);
        for (from, to, ident) in &c {
            if !ident {
                self.ev.violation(
                    "C19:cast-between-different-types",
                    &format!("{} {call}: cast_unchecked from {from} to {to}", self.name),
                    self.id,
                    J::obj().set("instantiation", self.name.as_str()).set("call", call),
                );
            }
        }
        if c.len() != expected {
            self.ev.violation(
                "C19:cast-count",
                &format!("{} {call}: {} cast events, expected {expected}", self.name, c.len()),
                self.id,
                J::obj().set("instantiation", self.name.as_str()).set("call", call),
            );
        }
    }
    pub fn failed(&mut self, call: &str, msg: &str) {
        self.ev.violation(
            "C19:call-failed",
            &format!("{} {call}: {msg}", self.name),
            self.id,
            J::obj().set("instantiation", self.name.as_str()).set("call", call),
        );
    }
    /// two results of the same shape must also have the same memory layout: the fast path is
    /// unobservable except in speed
    pub fn same_layout(&mut self, what: &str, shape: &[usize], a: &[isize], b: &[isize]) {
        self.ev.add("layout_comparisons", 1);
        // strides of axes of length <= 1 carry no information
        let differs = shape.iter().zip(a.iter().zip(b)).any(|(n, (x, y))| *n > 1 && x != y);
        if a.len() != b.len() || differs {
            self.ev.violation(
                "C19:fast-path-differs-from-general-path",
                &format!("{} {what}: result strides {:?} vs {:?} for shape {:?}", self.name, a, b, shape),
                self.id,
                J::obj().set("instantiation", self.name.as_str()).set("comparison", what),
            );
        }
    }
    pub fn compare(&mut self, what: &str, a: &[u64], b: &[u64]) {
        self.ev.add("path_comparisons", 1);
        if a != b {
            self.ev.violation(
                "C19:fast-path-differs-from-general-path",
                &format!("{} {what}: {:x?} vs {:x?}", self.name, a, b),
                self.id,
                J::obj().set("instantiation", self.name.as_str()).set("comparison", what),
            );
        }
    }
}

/// the same logical array stored in column-major order
pub fn to_f_order<T: Clone + Default, D: ndarray::Dimension>(a: &ndarray::Array<T, D>) -> ndarray::Array<T, D> {
    use ndarray::ShapeBuilder;
    let mut f = ndarray::Array::<T, D>::default(a.raw_dim().f());
    f.assign(a);
    f
}

pub fn data_shape(rank: usize, two_d: bool) -> Vec<usize> {
    // 3 points along each interpolated axis, trailing axes 2,1,1,...
    let mut s = vec![3];
    if two_d {
        s.push(3);
    }
    while s.len() < rank {
        s.push(if s.len() == if two_d { 2 } else { 1 } { 2 } else { 1 });
    }
    s
}

/// one 1-D instantiation: interpolator over (storage, D, T) queried with every query type
#[macro_export]
macro_rules! c19_one1 {
    ($ev:expr, $id:expr, $T:ty, $D:ty, $rank:expr, $sto:tt, $strat:tt) => {{
        use $crate::c19::{Bits, Inst};
        use $crate::ndarray::{arr0, Array1, ArrayD, IxDyn};
        use $crate::ndarray_interp::interp1d::Interp1DBuilder;
        use $crate::outcome::guard;
        let shape = $crate::c19::data_shape($rank, false);
        let n: usize = shape.iter().product();
        let data_d = ArrayD::from_shape_vec(
            IxDyn(&shape),
            (0..n).map(|i| <$T as Bits>::from_i(((i * 7) % 5) as i64 * 2 + (i % 2) as i64)).collect(),
        )
        .unwrap();
        let data = data_d.into_dimensionality::<$D>().unwrap();
        // every second instantiation stores its data in column-major (F) order
        let data = if ($id as u64) % 2 == 1 { $crate::c19::to_f_order(&data) } else { data };
        let x: Array1<$T> = Array1::from(vec![<$T as Bits>::from_i(0), <$T as Bits>::from_i(1), <$T as Bits>::from_i(2)]);
        let q1: Array1<$T> = Array1::from(vec![<$T as Bits>::query(0), <$T as Bits>::query(1)]);
        let mut inst = Inst {
            ev: $ev,
            name: format!(
                "Interp1D<{}, {}, {}, {}>",
                <$T as Bits>::NAME,
                stringify!($D),
                stringify!($sto),
                stringify!($strat)
            ),
            id: $id,
        };
        inst.begin();
        let r = guard(|| {
            let b = $crate::c19_sto!($sto, Interp1DBuilder::new, data);
            let b = b.x($crate::c19_sto!($sto, std::convert::identity, x));
            $crate::c19_strat1!($strat, b, $T, $D)
        });
        match r {
            Err(p) => inst.failed("build", &p),
            Ok(interp) => {
                let bits = |it: &mut dyn Iterator<Item = $T>| -> Vec<u64> { it.map(|v| v.b()).collect() };
                // fast path: static rank-1 query
                let fast = guard(|| interp.interp_array(&$crate::c19_sto!($sto, std::convert::identity, q1)).unwrap());
                inst.casts("interp_array(Ix1)", 2);
                // the same rank-1 query as a reversed (negative stride) and as a strided view
                let fast_rev = guard(|| {
                    let rev: Array1<$T> = q1.iter().rev().copied().collect();
                    interp.interp_array(&rev.slice($crate::ndarray::s![..;-1])).unwrap()
                });
                inst.casts("interp_array(Ix1, reversed view)", 2);
                let fast_strided = guard(|| {
                    let mut big: Array1<$T> = Array1::from_elem(2 * q1.len(), q1[0]);
                    for (i, v) in q1.iter().enumerate() {
                        big[2 * i] = *v;
                    }
                    interp.interp_array(&big.slice($crate::ndarray::s![..;2])).unwrap()
                });
                inst.casts("interp_array(Ix1, strided view)", 2);
                let general_dyn = guard(|| {
                    let q = q1.clone().into_dyn();
                    interp.interp_array(&$crate::c19_sto!($sto, std::convert::identity, q)).unwrap()
                });
                inst.casts("interp_array(IxDyn rank 1)", 0);
                let general_2 = guard(|| {
                    let q = q1.clone().into_shape_with_order((2, 1)).unwrap();
                    interp.interp_array(&$crate::c19_sto!($sto, std::convert::identity, q)).unwrap()
                });
                inst.casts("interp_array(Ix2)", 0);
                let general_3 = guard(|| {
                    let q = q1.clone().into_shape_with_order((2, 1, 1)).unwrap();
                    interp.interp_array(&$crate::c19_sto!($sto, std::convert::identity, q)).unwrap()
                });
                inst.casts("interp_array(Ix3)", 0);
                let zero_d = guard(|| {
                    let q = arr0(q1[0]);
                    interp.interp_array(&$crate::c19_sto!($sto, std::convert::identity, q)).unwrap()
                });
                inst.casts("interp_array(Ix0)", 0);
                let singles = guard(|| {
                    let mut v: Vec<$T> = Vec::new();
                    for &q in q1.iter() {
                        v.extend(interp.interp(q).unwrap().iter().copied());
                    }
                    v
                });
                inst.casts("interp", 0);
                match (fast, general_dyn, general_2, general_3, zero_d, singles) {
                    (Ok(f), Ok(gd), Ok(g2), Ok(g3), Ok(z), Ok(s)) => {
                        let fb = bits(&mut f.iter().copied());
                        match (&fast_rev, &fast_strided) {
                            (Ok(r), Ok(st)) => {
                                inst.compare("Ix1 vs Ix1 reversed view", &fb, &bits(&mut r.iter().copied()));
                                inst.compare("Ix1 vs Ix1 strided view", &fb, &bits(&mut st.iter().copied()));
                            }
                            (a, b) => {
                                if let Err(p) = a {
                                    inst.failed("interp_array(Ix1, reversed view)", p);
                                }
                                if let Err(p) = b {
                                    inst.failed("interp_array(Ix1, strided view)", p);
                                }
                            }
                        }
                        inst.compare("Ix1 vs IxDyn(rank 1)", &fb, &bits(&mut gd.iter().copied()));
                        inst.same_layout("Ix1 vs IxDyn(rank 1)", f.shape(), f.strides(), gd.strides());
                        inst.compare("Ix1 vs Ix2 (n,1)", &fb, &bits(&mut g2.iter().copied()));
                        inst.compare("Ix1 vs Ix3 (n,1,1)", &fb, &bits(&mut g3.iter().copied()));
                        let sb = bits(&mut s.iter().copied());
                        inst.compare("Ix1 vs per-element interp", &fb, &sb);
                        let zb = bits(&mut z.iter().copied());
                        inst.compare("Ix0 vs interp", &zb, &sb[..zb.len()]);
                        let mut want: Vec<usize> = vec![2];
                        want.extend(&shape[1..]);
                        if f.shape() != want.as_slice() {
                            inst.failed("interp_array(Ix1)", &format!("shape {:?}, expected {:?}", f.shape(), want));
                        }
                    }
                    (a, b, c, d, e, f) => {
                        for (name, r) in [
                            ("interp_array(Ix1)", a.err()),
                            ("interp_array(IxDyn)", b.err()),
                            ("interp_array(Ix2)", c.err()),
                            ("interp_array(Ix3)", d.err()),
                            ("interp_array(Ix0)", e.err()),
                            ("interp", f.err()),
                        ] {
                            if let Some(p) = r {
                                inst.failed(name, &p);
                            }
                        }
                    }
                }
            }
        }
    }};
}

#[macro_export]
macro_rules! c19_sto {
    (owned, $f:expr, $a:expr) => {
        $f($a.clone())
    };
    (view, $f:expr, $a:expr) => {
        $f($a.view())
    };
    (shared, $f:expr, $a:expr) => {
        $f($a.clone().into_shared())
    };
}

#[macro_export]
macro_rules! c19_strat1 {
    (Linear, $b:expr, $T:ty, $D:ty) => {
        $b.build().unwrap()
    };
    (CubicSpline, $b:expr, $T:ty, $D:ty) => {
        $b.strategy($crate::ndarray_interp::interp1d::cubic_spline::CubicSpline::<$T, $D>::new())
            .build()
            .unwrap()
    };
}

/// one 2-D instantiation
#[macro_export]
macro_rules! c19_one2 {
    ($ev:expr, $id:expr, $T:ty, $D:ty, $rank:expr, $sto:tt) => {{
        use $crate::c19::{Bits, Inst};
        use $crate::ndarray::{arr0, Array1, ArrayD, IxDyn};
        use $crate::ndarray_interp::interp2d::Interp2DBuilder;
        use $crate::outcome::guard;
        let shape = $crate::c19::data_shape($rank, true);
        let n: usize = shape.iter().product();
        let data_d = ArrayD::from_shape_vec(
            IxDyn(&shape),
            (0..n).map(|i| <$T as Bits>::from_i(((i * 5) % 7) as i64 * 2 + (i % 3) as i64)).collect(),
        )
        .unwrap();
        let data = data_d.into_dimensionality::<$D>().unwrap();
        // every second instantiation stores its data in column-major (F) order
        let data = if ($id as u64) % 2 == 1 { $crate::c19::to_f_order(&data) } else { data };
        let x: Array1<$T> = Array1::from(vec![<$T as Bits>::from_i(0), <$T as Bits>::from_i(1), <$T as Bits>::from_i(2)]);
        let y: Array1<$T> = x.clone();
        let qx: Array1<$T> = Array1::from(vec![<$T as Bits>::query(0), <$T as Bits>::query(1)]);
        let qy: Array1<$T> = Array1::from(vec![<$T as Bits>::query(1), <$T as Bits>::query(0)]);
        let mut inst = Inst {
            ev: $ev,
            name: format!("Interp2D<{}, {}, {}, Bilinear>", <$T as Bits>::NAME, stringify!($D), stringify!($sto)),
            id: $id,
        };
        inst.begin();
        let r = guard(|| {
            let b = $crate::c19_sto!($sto, Interp2DBuilder::new, data);
            b.x($crate::c19_sto!($sto, std::convert::identity, x))
                .y($crate::c19_sto!($sto, std::convert::identity, y))
                .build()
                .unwrap()
        });
        match r {
            Err(p) => inst.failed("build", &p),
            Ok(interp) => {
                let bits = |it: &mut dyn Iterator<Item = $T>| -> Vec<u64> { it.map(|v| v.b()).collect() };
                let fast = guard(|| {
                    interp
                        .interp_array(
                            &$crate::c19_sto!($sto, std::convert::identity, qx),
                            &$crate::c19_sto!($sto, std::convert::identity, qy),
                        )
                        .unwrap()
                });
                inst.casts("interp_array(Ix1)", 3);
                let fast_rev = guard(|| {
                    let rx: Array1<$T> = qx.iter().rev().copied().collect();
                    let ry: Array1<$T> = qy.iter().rev().copied().collect();
                    interp
                        .interp_array(&rx.slice($crate::ndarray::s![..;-1]), &ry.slice($crate::ndarray::s![..;-1]))
                        .unwrap()
                });
                inst.casts("interp_array(Ix1, reversed views)", 3);
                let general_dyn = guard(|| {
                    let a = qx.clone().into_dyn();
                    let b = qy.clone().into_dyn();
                    interp
                        .interp_array(
                            &$crate::c19_sto!($sto, std::convert::identity, a),
                            &$crate::c19_sto!($sto, std::convert::identity, b),
                        )
                        .unwrap()
                });
                inst.casts("interp_array(IxDyn rank 1)", 0);
                let general_2 = guard(|| {
                    let a = qx.clone().into_shape_with_order((2, 1)).unwrap();
                    let b = qy.clone().into_shape_with_order((2, 1)).unwrap();
                    interp
                        .interp_array(
                            &$crate::c19_sto!($sto, std::convert::identity, a),
                            &$crate::c19_sto!($sto, std::convert::identity, b),
                        )
                        .unwrap()
                });
                inst.casts("interp_array(Ix2)", 0);
                let general_3 = guard(|| {
                    let a = qx.clone().into_shape_with_order((1, 2, 1)).unwrap();
                    let b = qy.clone().into_shape_with_order((1, 2, 1)).unwrap();
                    interp
                        .interp_array(
                            &$crate::c19_sto!($sto, std::convert::identity, a),
                            &$crate::c19_sto!($sto, std::convert::identity, b),
                        )
                        .unwrap()
                });
                inst.casts("interp_array(Ix3)", 0);
                let zero_d = guard(|| {
                    let a = arr0(qx[0]);
                    let b = arr0(qy[0]);
                    interp
                        .interp_array(
                            &$crate::c19_sto!($sto, std::convert::identity, a),
                            &$crate::c19_sto!($sto, std::convert::identity, b),
                        )
                        .unwrap()
                });
                inst.casts("interp_array(Ix0)", 0);
                let singles = guard(|| {
                    let mut v: Vec<$T> = Vec::new();
                    for k in 0..2 {
                        v.extend(interp.interp(qx[k], qy[k]).unwrap().iter().copied());
                    }
                    v
                });
                inst.casts("interp", 0);
                match (fast, general_dyn, general_2, general_3, zero_d, singles) {
                    (Ok(f), Ok(gd), Ok(g2), Ok(g3), Ok(z), Ok(s)) => {
                        let fb = bits(&mut f.iter().copied());
                        match &fast_rev {
                            Ok(r) => inst.compare("Ix1 vs Ix1 reversed views", &fb, &bits(&mut r.iter().copied())),
                            Err(p) => inst.failed("interp_array(Ix1, reversed views)", p),
                        }
                        inst.compare("Ix1 vs IxDyn(rank 1)", &fb, &bits(&mut gd.iter().copied()));
                        inst.same_layout("Ix1 vs IxDyn(rank 1)", f.shape(), f.strides(), gd.strides());
                        inst.compare("Ix1 vs Ix2 (n,1)", &fb, &bits(&mut g2.iter().copied()));
                        inst.compare("Ix1 vs Ix3 (1,n,1)", &fb, &bits(&mut g3.iter().copied()));
                        let sb = bits(&mut s.iter().copied());
                        inst.compare("Ix1 vs per-element interp", &fb, &sb);
                        let zb = bits(&mut z.iter().copied());
                        inst.compare("Ix0 vs interp", &zb, &sb[..zb.len()]);
                    }
                    (a, b, c, d, e, f) => {
                        for (name, r) in [
                            ("interp_array(Ix1)", a.err()),
                            ("interp_array(IxDyn)", b.err()),
                            ("interp_array(Ix2)", c.err()),
                            ("interp_array(Ix3)", d.err()),
                            ("interp_array(Ix0)", e.err()),
                            ("interp", f.err()),
                        ] {
                            if let Some(p) = r {
                                inst.failed(name, &p);
                            }
                        }
                    }
                }
            }
        }
    }};
}

/// crossed storage kinds, 1-D: data/axis stored as `$sd`, the query as `$sq`
#[macro_export]
macro_rules! c19_cross1 {
    ($ev:expr, $id:expr, $T:ty, $D:ty, $rank:expr, $sd:tt, $sq:tt) => {{
        use $crate::c19::{Bits, Inst};
        use $crate::ndarray::{Array1, ArrayD, IxDyn};
        use $crate::ndarray_interp::interp1d::Interp1DBuilder;
        use $crate::outcome::guard;
        let shape = $crate::c19::data_shape($rank, false);
        let n: usize = shape.iter().product();
        let data_d = ArrayD::from_shape_vec(
            IxDyn(&shape),
            (0..n).map(|i| <$T as Bits>::from_i(((i * 3) % 7) as i64 + (i % 2) as i64)).collect(),
        )
        .unwrap();
        let data = data_d.into_dimensionality::<$D>().unwrap();
        // every second instantiation stores its data in column-major (F) order
        let data = if ($id as u64) % 2 == 1 { $crate::c19::to_f_order(&data) } else { data };
        let x: Array1<$T> = Array1::from(vec![<$T as Bits>::from_i(0), <$T as Bits>::from_i(1), <$T as Bits>::from_i(2)]);
        let q1: Array1<$T> = Array1::from(vec![<$T as Bits>::query(1), <$T as Bits>::query(0), <$T as Bits>::query(1)]);
        let mut inst = Inst {
            ev: $ev,
            name: format!(
                "Interp1D<{}, {}, data {}, query {}, Linear>",
                <$T as Bits>::NAME,
                stringify!($D),
                stringify!($sd),
                stringify!($sq)
            ),
            id: $id,
        };
        inst.begin();
        let r = guard(|| {
            let b = $crate::c19_sto!($sd, Interp1DBuilder::new, data);
            b.x($crate::c19_sto!($sd, std::convert::identity, x)).build().unwrap()
        });
        match r {
            Err(p) => inst.failed("build", &p),
            Ok(interp) => {
                let fast = guard(|| interp.interp_array(&$crate::c19_sto!($sq, std::convert::identity, q1)).unwrap());
                inst.casts("interp_array(Ix1)", 2);
                let general = guard(|| {
                    let q = q1.clone().into_shape_with_order((3, 1)).unwrap();
                    interp.interp_array(&$crate::c19_sto!($sq, std::convert::identity, q)).unwrap()
                });
                inst.casts("interp_array(Ix2)", 0);
                let singles = guard(|| {
                    let mut v: Vec<$T> = Vec::new();
                    for &q in q1.iter() {
                        v.extend(interp.interp(q).unwrap().iter().copied());
                    }
                    v
                });
                match (fast, general, singles) {
                    (Ok(f), Ok(g), Ok(s)) => {
                        let fb: Vec<u64> = f.iter().map(|v| v.b()).collect();
                        let gb: Vec<u64> = g.iter().map(|v| v.b()).collect();
                        let sb: Vec<u64> = s.iter().map(|v| v.b()).collect();
                        inst.compare("Ix1 vs Ix2 (n,1)", &fb, &gb);
                        inst.compare("Ix1 vs per-element interp", &fb, &sb);
                    }
                    (a, b, c) => {
                        for (name, r) in [("interp_array(Ix1)", a.err()), ("interp_array(Ix2)", b.err()), ("interp", c.err())] {
                            if let Some(p) = r {
                                inst.failed(name, &p);
                            }
                        }
                    }
                }
            }
        }
    }};
}

/// crossed storage kinds, 2-D: the x query stored as `$sx`, the y query as `$sy`
#[macro_export]
macro_rules! c19_cross2 {
    ($ev:expr, $id:expr, $T:ty, $D:ty, $rank:expr, $sx:tt, $sy:tt) => {{
        use $crate::c19::{Bits, Inst};
        use $crate::ndarray::{Array1, ArrayD, IxDyn};
        use $crate::ndarray_interp::interp2d::Interp2DBuilder;
        use $crate::outcome::guard;
        let shape = $crate::c19::data_shape($rank, true);
        let n: usize = shape.iter().product();
        let data_d = ArrayD::from_shape_vec(
            IxDyn(&shape),
            (0..n).map(|i| <$T as Bits>::from_i(((i * 5) % 7) as i64 * 2 + (i % 3) as i64)).collect(),
        )
        .unwrap();
        let data = data_d.into_dimensionality::<$D>().unwrap();
        // every second instantiation stores its data in column-major (F) order
        let data = if ($id as u64) % 2 == 1 { $crate::c19::to_f_order(&data) } else { data };
        let qx: Array1<$T> = Array1::from(vec![<$T as Bits>::query(0), <$T as Bits>::query(1), <$T as Bits>::query(0)]);
        let qy: Array1<$T> = Array1::from(vec![<$T as Bits>::query(1), <$T as Bits>::query(1), <$T as Bits>::query(0)]);
        let mut inst = Inst {
            ev: $ev,
            name: format!(
                "Interp2D<{}, {}, xs {}, ys {}, Bilinear>",
                <$T as Bits>::NAME,
                stringify!($D),
                stringify!($sx),
                stringify!($sy)
            ),
            id: $id,
        };
        inst.begin();
        match guard(|| Interp2DBuilder::new(data.clone()).build().unwrap()) {
            Err(p) => inst.failed("build", &p),
            Ok(interp) => {
                let fast = guard(|| {
                    interp
                        .interp_array(
                            &$crate::c19_sto!($sx, std::convert::identity, qx),
                            &$crate::c19_sto!($sy, std::convert::identity, qy),
                        )
                        .unwrap()
                });
                inst.casts("interp_array(Ix1)", 3);
                let general = guard(|| {
                    let a = qx.clone().into_shape_with_order((3, 1)).unwrap();
                    let b = qy.clone().into_shape_with_order((3, 1)).unwrap();
                    interp
                        .interp_array(
                            &$crate::c19_sto!($sx, std::convert::identity, a),
                            &$crate::c19_sto!($sy, std::convert::identity, b),
                        )
                        .unwrap()
                });
                inst.casts("interp_array(Ix2)", 0);
                let singles = guard(|| {
                    let mut v: Vec<$T> = Vec::new();
                    for k in 0..3 {
                        v.extend(interp.interp(qx[k], qy[k]).unwrap().iter().copied());
                    }
                    v
                });
                match (fast, general, singles) {
                    (Ok(f), Ok(g), Ok(s)) => {
                        let fb: Vec<u64> = f.iter().map(|v| v.b()).collect();
                        let gb: Vec<u64> = g.iter().map(|v| v.b()).collect();
                        let sb: Vec<u64> = s.iter().map(|v| v.b()).collect();
                        inst.compare("Ix1 vs Ix2 (n,1)", &fb, &gb);
                        inst.compare("Ix1 vs per-element interp", &fb, &sb);
                    }
                    (a, b, c) => {
                        for (name, r) in [("interp_array(Ix1)", a.err()), ("interp_array(Ix2)", b.err()), ("interp", c.err())] {
                            if let Some(p) = r {
                                inst.failed(name, &p);
                            }
                        }
                    }
                }
            }
        }
    }};
}

/// the six ordered pairs of different storage kinds, for every data dimension type
#[macro_export]
macro_rules! c19_crossdims {
    ($which:ident, $ev:ident, $id:ident, $shard:ident, $shards:ident, $T:ty, [$(($D:ty, $rank:expr)),*]) => {
        $(
            $crate::c19_crossdims!(@pairs $which, $ev, $id, $shard, $shards, $T, $D, $rank);
        )*
    };
    (@pairs $which:ident, $ev:ident, $id:ident, $shard:ident, $shards:ident, $T:ty, $D:ty, $rank:expr) => {
        $id += 1;
        if $id % $shards == $shard { $crate::$which!($ev, $id, $T, $D, $rank, owned, view); }
        $id += 1;
        if $id % $shards == $shard { $crate::$which!($ev, $id, $T, $D, $rank, owned, shared); }
        $id += 1;
        if $id % $shards == $shard { $crate::$which!($ev, $id, $T, $D, $rank, view, owned); }
        $id += 1;
        if $id % $shards == $shard { $crate::$which!($ev, $id, $T, $D, $rank, view, shared); }
        $id += 1;
        if $id % $shards == $shard { $crate::$which!($ev, $id, $T, $D, $rank, shared, owned); }
        $id += 1;
        if $id % $shards == $shard { $crate::$which!($ev, $id, $T, $D, $rank, shared, view); }
    };
}

#[macro_export]
macro_rules! c19_dims1 {
    ($ev:ident, $id:ident, $shard:ident, $shards:ident, $T:ty, $sto:tt, $strat:tt) => {
        $id += 1;
        if $id % $shards == $shard { $crate::c19_one1!($ev, $id, $T, Ix1, 1, $sto, $strat); }
        $id += 1;
        if $id % $shards == $shard { $crate::c19_one1!($ev, $id, $T, Ix2, 2, $sto, $strat); }
        $id += 1;
        if $id % $shards == $shard { $crate::c19_one1!($ev, $id, $T, Ix3, 3, $sto, $strat); }
        $id += 1;
        if $id % $shards == $shard { $crate::c19_one1!($ev, $id, $T, Ix4, 4, $sto, $strat); }
        $id += 1;
        if $id % $shards == $shard { $crate::c19_one1!($ev, $id, $T, Ix5, 5, $sto, $strat); }
        $id += 1;
        if $id % $shards == $shard { $crate::c19_one1!($ev, $id, $T, Ix6, 6, $sto, $strat); }
        $id += 1;
        if $id % $shards == $shard { $crate::c19_one1!($ev, $id, $T, IxDyn, 3, $sto, $strat); }
    };
}

#[macro_export]
macro_rules! c19_dims2 {
    ($ev:ident, $id:ident, $shard:ident, $shards:ident, $T:ty, $sto:tt) => {
        $id += 1;
        if $id % $shards == $shard { $crate::c19_one2!($ev, $id, $T, Ix2, 2, $sto); }
        $id += 1;
        if $id % $shards == $shard { $crate::c19_one2!($ev, $id, $T, Ix3, 3, $sto); }
        $id += 1;
        if $id % $shards == $shard { $crate::c19_one2!($ev, $id, $T, Ix4, 4, $sto); }
        $id += 1;
        if $id % $shards == $shard { $crate::c19_one2!($ev, $id, $T, Ix5, 5, $sto); }
        $id += 1;
        if $id % $shards == $shard { $crate::c19_one2!($ev, $id, $T, Ix6, 6, $sto); }
        $id += 1;
        if $id % $shards == $shard { $crate::c19_one2!($ev, $id, $T, IxDyn, 4, $sto); }
    };
}

/// all instantiations for one element type; `float` additionally runs CubicSpline
#[macro_export]
macro_rules! c19_all {
    ($fname:ident, $T:ty, $float:tt) => {
        /// `stratum`: 0 = everything, 1 = the (dims x interpolator) stratum with owned storage
        pub fn $fname(ev: &mut $crate::Ev, stratum: u32, shard: u64, shards: u64) {
            #[allow(unused_imports)]
            use $crate::ndarray::{Ix1, Ix2, Ix3, Ix4, Ix5, Ix6, IxDyn};
            let mut id: u64 = 0;
            $crate::c19_dims1!(ev, id, shard, shards, $T, owned, Linear);
            $crate::c19_dims2!(ev, id, shard, shards, $T, owned);
            if stratum == 0 {
                $crate::c19_dims1!(ev, id, shard, shards, $T, view, Linear);
                $crate::c19_dims1!(ev, id, shard, shards, $T, shared, Linear);
                $crate::c19_dims2!(ev, id, shard, shards, $T, view);
                $crate::c19_dims2!(ev, id, shard, shards, $T, shared);
                $crate::c19_all!(@spline $float, ev, id, shard, shards, $T);
                // crossed storage kinds (data x query in 1-D, xs x ys in 2-D)
                $crate::c19_crossdims!(c19_cross1, ev, id, shard, shards, $T,
                    [(Ix1, 1), (Ix2, 2), (Ix3, 3), (Ix4, 4), (Ix5, 5), (Ix6, 6), (IxDyn, 3)]);
                $crate::c19_crossdims!(c19_cross2, ev, id, shard, shards, $T,
                    [(Ix2, 2), (Ix3, 3), (Ix4, 4), (Ix5, 5), (Ix6, 6), (IxDyn, 4)]);
            } else {
                // the quick Miri stratum still sees one crossed pair per interpolator
                id += 1;
                if id % shards == shard { $crate::c19_cross1!(ev, id, $T, Ix2, 2, owned, view); }
                id += 1;
                if id % shards == shard { $crate::c19_cross2!(ev, id, $T, Ix3, 3, view, owned); }
            }
            let _ = id;
        }
    };
    (@spline float, $ev:ident, $id:ident, $shard:ident, $shards:ident, $T:ty) => {
        $crate::c19_dims1!($ev, $id, $shard, $shards, $T, owned, CubicSpline);
    };
    (@spline int, $ev:ident, $id:ident, $shard:ident, $shards:ident, $T:ty) => {};
}
