"""Per-property configuration of ./check: driver binary, legs per tier, observation gates."""

N = ("native", 1.0)


def MIRI(scale, shards=16, **args):
    return ("miri", scale, {"shards": shards, "args": args, "timeout": 5400})


def ASAN(scale, shards=8, **args):
    return ("asan", scale, {"shards": shards, "args": args, "timeout": 3600})


def VALGRIND(scale, shards=16, **args):
    return ("valgrind", scale, {"shards": shards, "args": args, "timeout": 5400})


def TSAN(scale, shards=2, threads=1, **args):
    return ("tsan", scale, {"shards": shards, "threads": threads, "args": args, "timeout": 3600})

PROPS = {
    "C01": dict(bin="c01", oracle=True,
                legs={"quick": [N], "thorough": [N]},
                gates=[("hist_keys_min", "axis_class", 9), ("hist_keys_min", "entry", 3),
                       ("nontrivial_min", 100)],
                assumptions=["tolerance 16*2^-52*Y (2^-23 for f32) with Y the larger bracketing magnitude; "
                             "derived bound of the crate's formula is 11u*Y",
                             "python3 fractions is exact"]),
    "C02": dict(bin="c02", oracle=True,
                legs={"quick": [N], "thorough": [N]},
                gates=[("hist_keys_min", "ordered_pair", 25), ("nontrivial_min", 50)],
                assumptions=["tolerance = 2^13 * u * (1+rho) * G * amplification of the exact differentiation "
                             "weights actually used (see DESIGN 2.4 / C02)"]),
    "C03": dict(bin="c03", oracle=True,
                legs={"quick": [N], "thorough": [N, ("o0", 0.25)]},
                gates=[("hist_keys_min", "ordered_pair", 25), ("nontrivial_min", 50)],
                assumptions=["value tolerance = 2^13 * u * (1+rho) * G * max(1,|t|,|1-t|)^3 (DESIGN 2.4)",
                             "reference spline: exact moment formulation, sparse Gaussian elimination"]),
    "C04": dict(bin="c04", oracle=True,
                legs={"quick": [N], "thorough": [N]},
                gates=[("counter_min", "transpose_compared", 1000), ("counter_min", "grid_line_compared", 200),
                       ("hist_keys_min", "entry", 3), ("nontrivial_min", 100)],
                assumptions=["blend tolerance 64*2^-52*Z (three nested two-point formulas: <= ~35u*Z), "
                             "grid line 80, transpose 128"]),
    "C06": dict(bin="c06", oracle=True,
                legs={"quick": [N], "thorough": [N]},
                gates=[("counter_min", "inrange_compared", 1000), ("counter_min", "outside_answered", 1000),
                       ("hist_keys_min", "strategy", 3), ("hist_keys_min", "outside_in", 3)],
                assumptions=["outside tolerances: line 16*2^-52*Y*(1+2|t|), spline tol*max(1,|t|,|1-t|)^3, "
                             "bilinear 64*2^-52*Z*(1+2|tx|)(1+2|ty|)"]),
    "C07": dict(bin="c07", oracle=True,
                legs={"quick": [N], "thorough": [N]},
                gates=[("hist_keys_min", "n_class", 3), ("hist_keys_min", "uniform", 2),
                       ("hist_keys_min", "x0_sign", 2)],
                assumptions=["bound = spline tolerance + L*delta, L exact bound of |S'|, "
                             "delta = 4u(|q|+|x0|+P) (rounding of the wrapped argument)"]),
    "C16": dict(bin="c16", oracle=True,
                legs={"quick": [N], "thorough": [N, ("o0", 0.25)]},
                gates=[("hist_keys_min", "strategy", 3), ("hist_keys_min", "boundary", 4),
                       ("hist_keys_min", "extrapolate", 2), ("nontrivial_min", 100)],
                assumptions=["data are exactly p(x_i) (integer arithmetic in the driver)",
                             "tolerances as C01 / C03 / C04"]),
    "C05": dict(bin="c05", oracle=False,
                legs={"quick": [N], "thorough": [N]},
                gates=[("counters_equal", "strategy_entry_pairs", "strategy_entry_pairs_with_accept_and_reject"),
                       ("counter_min", "strategy_entry_pairs", 30), ("hist_keys_min", "query_class", 18)],
                assumptions=["oracle = closed-range comparison on the harness's copy of the axis"]),
    "C08": dict(bin="c08", oracle=True,
                legs={"quick": [N], "thorough": [N]},
                gates=[("counter_min", "lanes_compared_under_perturbation", 300),
                       ("counter_min", "zero_lane_cases", 5), ("counter_min", "zero_block_gate_rows", 1000),
                       ("hist_keys_min", "lane_shape_class", 4), ("hist_keys_min", "strategy", 3),
                       ("nontrivial_min", 100)],
                assumptions=["bit-identity with a per-lane interpolator is observed, not required"]),
    "C20": dict(bin="c20", oracle=False,
                legs={"quick": [N], "thorough": [N]},
                gates=[("counter_min", "queries_compared", 2000), ("counter_min", "axis_values_moved", 1000),
                       ("hist_keys_min", "bracket_position", 3), ("hist_keys_min", "extrapolate", 2)],
                assumptions=["bracket = harness linear scan (x[i] <= q < x[i+1], end intervals outside)"]),
    "C12": dict(bin="c12", oracle=False, exhaustive=True,
                legs={"quick": [N], "thorough": [N]},
                gates=[("counter_min", "nan_vectors", 1500), ("hist_keys_min", "expected_class", 5),
                       ("counter_min", "signed_zero_tie_classifications", 10000), ("counter_min", "builder_clause_long_axes", 8000)],
                assumptions=["reference classifier: counts of <, =, > among consecutive pairs",
                             "exhaustive up to 9 (quick) / 12 (thorough) pairs; longer vectors sampled"]),
    "C11": dict(bin="c11", oracle=False, exhaustive=True,
                legs={"quick": [N], "thorough": [N, ASAN(0.02, shards=8), MIRI(0.0005, shards=16, **{"max-len": 12})]},
                gates=[("counter_min", "guess_is_last_index", 1), ("counter_min", "guess_misses_binary_search", 1000),
                       ("counter_min", "lookups_via_interp1d", 1000), ("counter_min", "lookups_via_interp2d", 100),
                       ("hist_keys_min", "axis_class", 11), ("hist_keys_min", "elem", 4)],
                assumptions=["oracle = std partition_point (independent search), cross-checked by linear scan on short axes",
                             "exhaustive part: every (len <= 40, guess position, rank); random part sampled"]),
    "C10": dict(bin="c10", oracle=False, exhaustive=True,
                legs={"quick": [N], "thorough": [N]},
                gates=[("counter_min", "rows_1d", 5000), ("counter_min", "rows_2d", 5000),
                       ("counter_min", "constructor_only_rows", 10), ("counter_min", "long_axis_rows", 30000),
                       ("hist_keys_min", "violated_requirement", 6), ("hist_keys_min", "error_kind", 4)],
                assumptions=["independent validator states which requirements are violated; an error kind is "
                             "accepted if it belongs to some violated requirement (messages are not compared)"]),
    "C09": dict(bin="c09", oracle=False,
                legs={"quick": [N],
                      "thorough": [N, MIRI(0.001), ASAN(0.05), VALGRIND(0.01)]},
                gates=[("counter_min", "elements_compared", 5000), ("counter_min", "placement_elements_checked", 5000),
                       ("counter_min", "signed_zero_query_batches", 100),
                       ("counter_min", "empty_queries", 10), ("counter_min", "combined_rank_above_6", 10),
                       ("counter_min", "zero_length_trailing_axis_cases", 5), ("counter_min", "array_into_compared", 300),
                       ("hist_keys_min", "query_kind", 6)],
                assumptions=["placement probe: the recording strategy's code f(x, lane) is injective on the queries used"]),
    "C13": dict(bin="c13", oracle=False,
                legs={"quick": [N],
                      "thorough": [N, MIRI(0.0005), ASAN(0.05)]},
                gates=[("counter_min", "observations_compared", 20000), ("counter_min", "query_storage_variants", 10),
                       ("hist_keys_min", "variation", 10), ("hist_keys_min", "storage_effective", 4),
                       ("hist_keys_min", "data_layout_class", 6)],
                assumptions=["storage kinds of data/axes are instantiated for f64 data Ix2/IxDyn (1-D) and Ix3/IxDyn (2-D)"]),
    "C14": dict(bin="c14", oracle=False,
                legs={"quick": [N],
                      "thorough": [N, ASAN(0.05), VALGRIND(0.01), MIRI(0.0008)]},
                gates=[("counter_min", "ok_fully_written_checked", 1000), ("counter_min", "wrong_buffers_rejected", 5000),
                       ("counter_min", "batch_length_sweep_cases", 1000),
                       ("counter_min", "wrong_buffers_rejected_same_count", 500),
                       ("counter_min", "windows_with_leading_and_trailing_slack", 500),
                       ("counter_min", "xy_shape_mismatch_rejected", 100),
                       ("counter_min", "outside_elements_checked", 10000),
                       ("hist_keys_min", "wrong_shape_kind", 8)],
                assumptions=["sentinel = NaN payload no computation on finite data can produce"]),
    "C18": dict(bin="c18", oracle=False,
                legs={"quick": [N],
                      "thorough": [N, MIRI(0.0015)]},
                gates=[("counter_min", "user_build_invocations", 200), ("counter_min", "builder_rows", 2000),
                       ("counter_min", "long_axis_rows", 30000),
                       ("counter_min", "strategy_calls_checked", 3000), ("counter_min", "target_placements_checked", 1000),
                       ("counter_min", "injected_interp_errors", 1000), ("counter_min", "injected_build_errors", 100),
                       ("counter_min", "index_point_checked", 500), ("hist_keys_min", "declared_minimum", 10)],
                assumptions=["axes shorter than 2 are not judged (only the direction the statement gives is asserted)"]),
    "C19": dict(bin="c19", oracle=False, exhaustive=True,
                legs={"quick": [N, MIRI(1.0, shards=13, stratum=1)],
                      "thorough": [N, MIRI(1.0, shards=16, stratum=0), ASAN(1.0, shards=4)]},
                gates=[("counter_min", "instantiations", 482), ("counter_min", "cast_events", 1180),
                       ("counter_min", "path_comparisons", 1474)],
                assumptions=["type_name distinguishes the types involved (sizes and alignments are compared too)",
                             "Miri is the independent UB arbiter for the cast"]),
    "C17": dict(bin="c17", oracle=False, compile_assert="Send + Sync",
                legs={"quick": [N],
                      "thorough": [N, MIRI(0.04, shards=16, history=10, perms=1, hammer=40, **{'max-threads': 3}), TSAN(0.25, shards=2, hammer=3000), ASAN(0.08, shards=4, hammer=3000)]},
                gates=[("counter_min", "distinct_interleavings_with_overlap", 2), ("counter_min", "overlapping_call_pairs", 100),
                       ("counter_min", "ops_replayed_concurrently", 5000), ("hist_keys_min", "scenario", 4),
                       ("hist_keys_min", "reference_outcome", 3)],
                assumptions=["Send + Sync is a compile-time assertion built with the driver (not an observation)",
                             "schedules are sampled by the OS scheduler (native) or Miri's seeded scheduler"]),
    "C15": dict(bin="c15", oracle=True,
                legs={"quick": [N, ("o0", 0.2)], "thorough": [N, ("o0", 0.25)]},
                gates=[("counter_min", "values_compared_bitwise", 50000), ("counter_min", "inexact_problems_logged", 500),
                       ("hist_keys_min", "transformation", 5), ("hist_keys_min", "strategy", 8)],
                assumptions=["exact transformations are exact for every value involved (dyadic grid; checked)",
                             "inexact transformations: each problem is compared with its own exact oracle"]),
}


def _t(level, note, technique):
    return dict(level=level, note=note, technique=technique)


_ORACLE = ("event log of real calls (inputs and results as bit patterns) judged offline by an exact-rational reference "
           "(python fractions)")

TEXT = {
    "C01": _t("Every in-range result of the real Linear strategy on thousands of generated data sets (all spacing classes incl. "
              "ulp-clustered knots, f64/f32, 1..4-d and dynamic data, all entry points; knots and their neighbouring floats "
              "enumerated) is compared with the exact line through the bracketing points; held-on-K-executions, not a proof.",
              "exact arithmetic of python fractions; tolerance 16*2^-52*Y derived from the formula (11u*Y); bracket found by exact comparison",
              "runtime monitoring: " + _ORACLE + " (exact line through the bracket)"),
    "C02": _t("Model-free runtime check of the returned samples: per interval an exact cubic is fitted to 4 returned values and "
              "must predict the others; one-sided first/second derivatives of adjacent fits must agree at every interior knot; "
              "knots must be reproduced - over all boundary selections, n=3..40, non-uniform axes, lanes.",
              "tolerance = rounding unit of the spline * exact amplification of the differentiation weights actually used",
              "runtime monitoring: event log + offline exact Lagrange fits of returned samples (C2 / one-cubic-per-interval residuals)"),
    "C03": _t("Every returned value is compared with an independently computed exact spline (moment formulation, exact sparse "
              "elimination) for all 25 ordered boundary pairs, Periodic, whole-set and per-lane selections; end-condition residuals "
              "are evaluated from exact fits of the returned end-interval samples. Native optimised and unoptimised builds.",
              "reference = unique interpolating spline in exact arithmetic; tolerance 2^13*u*(1+mesh ratio)*G*max(1,|t|,|1-t|)^3",
              "runtime monitoring: " + _ORACLE + " (independent exact spline + boundary residuals)"),
    "C04": _t("Every result of the real Bilinear strategy on generated grids is compared with the exact bilinear blend; grid-line and "
              "transpose relations are checked in-process against the crate's own Linear / second Bilinear interpolator.",
              "tolerance 64*2^-52*Z (three nested two-point formulas), 80 / 128 for the relations",
              "runtime monitoring: " + _ORACLE + " + in-process differential relations"),
    "C05": _t("In-process monitor over every strategy x entry point x edge query (ends, 1-2 ulps either side, +-inf, NaN, +-MAX) and "
              "one bad element at every position of every batch shape, data with 0..2 trailing axes incl. zero-length ones; oracle is the closed-range predicate on the harness's copy of the axis.",
              "observation gate: every (strategy family, entry point) seen accepting and rejecting",
              "runtime monitoring: in-process assertion against a shadow predicate, outcome classification via catch_unwind"),
    "C06": _t("With extrapolation on: every finite query answered, in-range results bit-identical to the non-extrapolating interpolator "
              "(in-process), outside results compared offline with the exact end piece (line / cubic / border cell form) up to 1e4 spans away.",
              "tolerances scale with |t| as derived (1+2|t| resp. max(1,|t|)^3)",
              "runtime monitoring: in-process bitwise differential + " + _ORACLE),
    "C07": _t("Queries x+k*P (k up to 1e6), images of both range ends and floats 1-3 ulps around them are compared with the exact periodic "
              "spline at the exactly wrapped float query, with a Lipschitz-aware bound for the rounding of the wrapped argument.",
              "bound = spline tolerance + (2L + ...)*delta with exact L >= |S'| and delta = rounding of q-x0, k x rounding of the period, 4u(|q-x0|+|x0|+P); wrap in exact rationals; queries up to 2^1000 away, judged up to about 2^49 periods; 8 threads repeating far queries on a shared spline",
              "runtime monitoring: " + _ORACLE + " (exact wrap + exact periodic spline)"),
    "C08": _t("For a random lane j of n-d data (0..6 trailing axes, zero-length and non-square shapes, per-lane boundaries) results must "
              "not change in any bit when every other lane is replaced by NaN/inf/huge/random values and other boundaries are re-drawn; "
              "lane j is also checked as a single-lane problem by the exact oracle; zero-block gate: an exactly-zero lane with every ordered pair of end conditions, neighbours zero / non-zero.",
              "bit-identity with a per-lane interpolator is observed and reported, not required",
              "runtime monitoring: in-process bitwise differential under perturbation + exact oracle per lane"),
    "C09": _t("Bitwise agreement of interp_array / interp / interp_scalar / *_into and the shape law over every query dimension type "
              "(Ix0..Ix4, dynamic, empty) and data Ix1..Ix6/IxDyn; placement probed with a recording user strategy that writes f(x, lane); batches with runs of -0.0 / +0.0 (equal under ==, different answers).",
              "placement code f(x, lane) is injective on the queries used",
              "runtime monitoring: in-process bitwise differential between entry points + recording strategy as placement probe"),
    "C10": _t("The full decision table is enumerated (strategy x rank x length x axis length x order pattern x boundary array shape x "
              "periodic ends x (2-D) x and y independently, ~34k rows incl. signed-zero ties; plus axes of 512..1025 knots with one defect at every position, ~34k rows): Ok iff an independent validator finds no violated requirement, "
              "otherwise an error kind belonging to a violated requirement; never a panic.",
              "error messages are not compared; statically rank-deficient data can only be constructed (must not panic)",
              "runtime monitoring: enumerated decision table against an independent validator (shadow model)"),
    "C11": _t("get_lower_index / get_index_left_of on every (length<=40, guess position, rank) combination (exhaustive) and on random axes "
              "up to 1e4 points of all spacing classes, f64/f32/i32/i64, compared with an independent search; never a panic.",
              "oracle = std partition_point cross-checked by linear scan; precondition span and (len-1)/span finite",
              "runtime monitoring: in-process comparison with an independent search; bounded-exhaustive + random"),
    "C12": _t("monotonic_prop on every relation word up to 9 (quick) / 12 (thorough) pairs, four element types, strided and reversed views, "
              "every NaN placement in vectors up to length 8, random long vectors, ties also realised as -0.0 / +0.0, against an independent classifier; the builder clause on short axes and on axes of 512..1025 knots with one defect at every position.",
              "exhaustive up to the stated bound (sufficient to separate automata of <= 7 states); longer vectors sampled",
              "runtime monitoring: exhaustive enumeration against an independent classifier"),
    "C13": _t("Differential against the all-owned C-order baseline: each argument (data, x, y, queries, buffers, storage kind) is "
              "re-materialised with random layouts (permuted memory order, steps, reversed axes, windows) and every call's result/outcome must be bit-identical.",
              "storage kinds of data/axes instantiated for f64 data Ix2/IxDyn (1-D), Ix3/IxDyn (2-D); query storage kinds on concrete types",
              "runtime monitoring: in-process bitwise differential across memory layouts and ownership"),
    "C14": _t("Buffers are windows into a sentinel-filled allocation: after Ok no sentinel inside, contents equal the allocating variant, "
              "every element outside unchanged; every wrong shape (axis +-1, permutations, same count, rank +-1) and x/y shape mismatch must panic; sweep over every rank-1 batch length 1..640 (thorough 1..4200).",
              "sentinel = NaN payload no computation on finite data can produce; sanitizer legs add out-of-allocation / uninitialised reads",
              "runtime monitoring: sentinel windows + outcome classification; AddressSanitizer / memcheck / Miri legs in the thorough tier"),
    "C15": _t("Exact unit changes (data*2^j, axis*2^k with converted derivative values, negation, dyadic-grid shifts, independent x/y factors) "
              "are compared bitwise in optimised and unoptimised builds; inexact changes and superpositions are each compared with their own exact oracle.",
              "the sign of an exactly zero result is not judged (+0 == -0)",
              "runtime monitoring: in-process bitwise metamorphic relations (two build profiles) + exact oracle for inexact relations"),
    "C16": _t("Data sampled exactly (integer arithmetic) from polynomials with dyadic coefficients; every result is compared with the exact "
              "polynomial value at the float query, in range and extrapolated, for every admissible boundary combination and per-lane polynomials.",
              "tolerances as C01/C03/C04",
              "runtime monitoring: " + _ORACLE + " (generating polynomial evaluated exactly)"),
    "C17": _t("Random histories mixing all entry points (incl. failing and panicking calls) are replayed in order, permuted and split over 2..16 "
              "threads sharing one interpolator; every result must equal the fresh-interpolator reference bit for bit; Debug rendering unchanged; "
              "tickets record the interleavings and overlaps actually observed. Send+Sync: compile-time assertion.",
              "schedules sampled, not enumerated; Miri (seeded scheduler, race detector) and ThreadSanitizer legs in the thorough tier",
              "runtime monitoring: history replay against a fresh-instance reference, thread traces; Miri / TSan race detection; compile-time assertion for Send+Sync"),
    "C18": _t("Recording / failing user strategies (declared minimum 0..4) observe exactly what the builder and the query entry points hand "
              "them: validated axes, unmodified query values, target shape, target address and strides per query; injected errors must arrive unchanged.",
              "axes shorter than 2 are not judged",
              "runtime monitoring: the crate's own extension point as a probe (recording strategies), failure injection at every call index"),
    "C19": _t("The finite instantiation set (170 interpolator types x 5 query dimension types) is enumerated: with the hook every cast event "
              "must relabel identical types (name, size, alignment) and occur the expected number of times; fast path, general path and per-element "
              "interp must agree bitwise; the same program runs under Miri as UB oracle.",
              "type_name distinguishes the types involved; Miri is the independent arbiter",
              "runtime monitoring: invariant hook in cast_unchecked + differential paths; Miri UB interpreter over the enumerated instantiations"),
    "C20": _t("Per query every non-bracketing row/node is replaced by NaN/inf/huge/random values and every non-bracketing axis value is moved "
              "strictly between its neighbours; the result must not change in any bit (in range and extrapolated, all lanes, ulp-clustered axes).",
              "bracket = harness linear scan",
              "runtime monitoring: in-process bitwise differential under poisoning of non-bracketing inputs"),
}
