//! C16 - polynomials of the strategy's degree are reproduced everywhere.
//! Data are sampled from polynomials with small dyadic coefficients at dyadic knots, so the
//! data are *exactly* p(x_i) (asserted with integer arithmetic here). The offline checker
//! evaluates p exactly at every float query (check "poly").

use vh::cases::*;
use vh::events::*;
use vh::gen::*;
use vh::ndarray::{Array1, ArrayD, IxDyn};
use vh::report::*;
use vh::spec::*;
use vh::work::*;
use vh::*;

/// dyadic number num * 2^-sh
#[derive(Clone, Copy, Debug)]
struct Dy {
    num: i128,
    sh: u32,
}

impl Dy {
    fn to_f64(self) -> Option<f64> {
        let mut n = self.num;
        let mut sh = self.sh as i32;
        if n == 0 {
            return Some(0.0);
        }
        while n % 2 == 0 {
            n /= 2;
            sh -= 1;
        }
        if n.unsigned_abs() >= (1u128 << 53) {
            return None;
        }
        let v = n as f64;
        let r = if sh >= 0 {
            v * f64::pow2(-sh)
        } else {
            v * f64::pow2(-sh)
        };
        Some(r)
    }
    fn fits<T: Flt>(self) -> Option<T> {
        let mut n = self.num;
        if n == 0 {
            return Some(T::of(0.0));
        }
        while n % 2 == 0 {
            n /= 2;
        }
        if n.unsigned_abs() >= (1u128 << (T::MANT + 1)) {
            return None;
        }
        self.to_f64().map(T::of)
    }
}

/// polynomial with dyadic coefficients c_j = m_j * 2^-r, evaluated exactly at K * 2^-s
fn poly_at(m: &[i64], r: u32, k: i64, s: u32, deriv: usize) -> Dy {
    // d^deriv/dx^deriv sum m_j 2^-r x^j at x = K 2^-s
    // term j: m_j * falling(j, deriv) * K^(j-deriv) * 2^(-r - (j-deriv) s)
    let maxp = m.len().saturating_sub(1 + deriv) as u32; // highest remaining power
    let mut num: i128 = 0;
    for (j, &mj) in m.iter().enumerate() {
        if j < deriv {
            continue;
        }
        let mut f: i128 = 1;
        for t in 0..deriv {
            f *= (j - t) as i128;
        }
        let p = (j - deriv) as u32;
        num += mj as i128 * f * (k as i128).pow(p) * (1i128 << ((maxp - p) * s));
    }
    Dy {
        num,
        sh: r + maxp * s,
    }
}

struct PolyLane {
    m: Vec<i64>, // coefficients m_j (times 2^-r)
    r: u32,
}

impl PolyLane {
    fn degree(&self) -> usize {
        self.m.iter().rposition(|&c| c != 0).unwrap_or(0)
    }
    fn coef_hex(&self, count: usize) -> J {
        J::Arr(
            (0..count)
                .map(|j| {
                    let c = self.m.get(j).copied().unwrap_or(0) as f64 * f64::pow2(-(self.r as i32));
                    J::Str(c.hex())
                })
                .collect(),
        )
    }
}

fn gen_poly(rng: &mut Rng, degree: usize, small: bool) -> PolyLane {
    let lim = if small { 3 } else { 12 };
    let r = rng.below(if small { 2 } else { 4 }) as u32;
    let mut m: Vec<i64> = (0..=degree).map(|_| rng.irange(-lim, lim)).collect();
    if m[degree] == 0 {
        m[degree] = 1;
    }
    PolyLane { m, r }
}

/// strictly increasing integer knots K_i (times 2^-s)
fn gen_knots(rng: &mut Rng, n: usize, small: bool, uniform: bool) -> (Vec<i64>, u32) {
    let s = rng.below(if small { 2 } else { 4 }) as u32;
    let maxgap = if small { 2 } else { 6 };
    let gaps: Vec<i64> = if uniform {
        let g = 1 + rng.below(maxgap) as i64;
        vec![g; n - 1]
    } else {
        (0..n - 1).map(|_| 1 + rng.below(maxgap) as i64).collect()
    };
    let total: i64 = gaps.iter().sum();
    let start = -rng.irange(0, total);
    let mut k = vec![start];
    for g in gaps {
        k.push(k.last().unwrap() + g);
    }
    (k, s)
}

fn side_boundary<T: Flt>(
    rng: &mut Rng,
    p: &PolyLane,
    k_end: i64,
    s: u32,
    n: usize,
    other_is_nak: Option<bool>,
) -> Option<SB<T>> {
    let d = p.degree();
    let mut opts: Vec<u8> = vec![3, 4]; // FirstDeriv(p'), SecondDeriv(p'')
    // NotAKnot reproduces the cubic unless n == 3 with NotAKnot on both ends (parabola only)
    if n >= 4 || d <= 2 || other_is_nak == Some(false) {
        opts.push(0);
    }
    if d <= 1 {
        opts.push(1);
    }
    if d == 0 {
        opts.push(2);
    }
    match *rng.pick(&opts) {
        0 => Some(SB::NotAKnot),
        1 => Some(SB::Natural),
        2 => Some(SB::Clamped),
        3 => poly_at(&p.m, p.r, k_end, s, 1).fits::<T>().map(SB::FirstDeriv),
        _ => poly_at(&p.m, p.r, k_end, s, 2).fits::<T>().map(SB::SecondDeriv),
    }
}

fn case_spline<T: Elem>(case: u64, args: &Args, ev: &mut Ev, log: &mut EventLog) {
    let mut rng = Rng::derive(args.seed, "C16", &[case]);
    let small = T::MANT == 23;
    let n = match case % 5 {
        0 => 3,
        1 => 4,
        _ if !small && case % 60 == 2 => *rng.pick(&[65usize, 257, 513, 700]),
        _ => rng.range(5, if small { 8 } else { 16 }),
    };
    let uniform = rng.chance(0.2);
    let (knots, s) = gen_knots(&mut rng, n, small, uniform);
    let lanes_shape = gen_lane_shape(&mut rng, 2, false);
    let n_lanes: usize = lanes_shape.iter().product();
    let extrapolate = rng.chance(0.5);
    // whole-data-set boundary or per-lane
    let whole = rng.below(4); // 0: NotAKnot, 1: Natural, 2: Clamped, 3: Individual
    let mut polys: Vec<PolyLane> = Vec::new();
    let mut rows: Vec<RB<T>> = Vec::new();
    let mut cols: Vec<Vec<T>> = Vec::new();
    let mut names: Vec<String> = Vec::new();
    for _ in 0..n_lanes {
        let mut tries = 0;
        loop {
            tries += 1;
            let maxdeg = match whole {
                0 => {
                    if n == 3 {
                        2
                    } else {
                        3
                    }
                }
                1 => 1,
                2 => 0,
                _ => 3,
            };
            let deg = if tries > 20 { 0 } else { rng.below(maxdeg + 1) };
            let p = gen_poly(&mut rng, deg, small || tries > 10);
            let ys: Option<Vec<T>> = knots
                .iter()
                .map(|&k| poly_at(&p.m, p.r, k, s, 0).fits::<T>())
                .collect();
            let Some(ys) = ys else { continue };
            let rb = if whole == 3 {
                let left_nak = rng.chance(0.3);
                let l = if left_nak && (n >= 4 || p.degree() <= 2) {
                    Some(SB::NotAKnot)
                } else {
                    side_boundary::<T>(&mut rng, &p, knots[0], s, n, None)
                };
                let l_is_nak = matches!(l, Some(SB::NotAKnot));
                let r = side_boundary::<T>(&mut rng, &p, knots[n - 1], s, n, Some(l_is_nak));
                match (l, r) {
                    (Some(l), Some(r)) => {
                        // n == 3 with NotAKnot on both ends reproduces parabolas only
                        if n == 3
                            && matches!(l, SB::NotAKnot)
                            && matches!(r, SB::NotAKnot)
                            && p.degree() > 2
                        {
                            continue;
                        }
                        RB::Mixed(l, r)
                    }
                    _ => continue,
                }
            } else {
                RB::NotAKnot // unused
            };
            names.push(format!("deg{}:{}", p.degree(), rb.name()));
            polys.push(p);
            rows.push(rb);
            cols.push(ys);
            break;
        }
    }
    let mut shape = vec![n];
    shape.extend(&lanes_shape);
    let mut flat = Vec::with_capacity(n * n_lanes);
    for i in 0..n {
        for c in &cols {
            flat.push(c[i]);
        }
    }
    let data = ArrayD::from_shape_vec(IxDyn(&shape), flat).unwrap();
    let x: Vec<T> = knots
        .iter()
        .map(|&k| T::of(k as f64 * f64::pow2(-(s as i32))))
        .collect();
    let boundary = match whole {
        0 => Bound::NotAKnot,
        1 => Bound::Natural,
        2 => Bound::Clamped,
        _ => {
            let mut bshape = vec![1];
            bshape.extend(&lanes_shape);
            Bound::Individual(ArrayD::from_shape_vec(IxDyn(&bshape), rows).unwrap())
        }
    };
    let bname = boundary.name();
    let mut spec = Spec1::new(
        data,
        Some(Array1::from(x.clone())),
        Strat1::Spline {
            extrapolate,
            boundary,
        },
    );
    spec.dynamic = rng.chance(0.2);
    let mut q = spline_queries(&mut rng, &x, 8);
    if extrapolate {
        q.extend(queries_outside(&mut rng, &x, 8.0, 10));
    }
    let maxdeg = polys.iter().map(|p| p.degree()).max().unwrap_or(0);
    let h = hash_bits(
        &[&bits_of(&x), &bits_of_arr(&spec.data)],
        &[T::NAME, &bname, &names.join(",")],
    );
    ev.case(h, maxdeg >= 1);
    ev.count("strategy", "CubicSpline");
    ev.count("boundary", &bname);
    ev.count("n_class", n_class(n, 3));
    ev.count("max_degree", format!("{maxdeg}"));
    ev.count("uniform", if uniform { "uniform" } else { "non-uniform" });
    ev.count("extrapolate", if extrapolate { "on" } else { "off" });
    ev.count("elem", T::NAME);
    for nm in &names {
        ev.count("lane_config", nm);
    }
    let polyj = J::Arr(polys.iter().map(|p| p.coef_hex(4)).collect());
    build1(&spec, |r| {
        let Ok(interp) = r else {
            ev.violation(
                "C16:build-failed",
                &format!("valid data rejected: {}", r.err().unwrap().detail()),
                case,
                spec1_json(&spec),
            );
            return;
        };
        match query_all1(&mut rng, interp, &spec, &q) {
            Err(f) => ev.violation("C16:query-not-answered", &f, case, spec1_json(&spec)),
            Ok((used, res, entry)) => {
                ev.count("entry", entry);
                ev.add("queries", used.len() as u64);
                ev.sample(|| {
                    J::obj()
                        .set("case", case)
                        .set("lane_configs", J::arr(names.clone()))
                        .set("poly_coefficients", polyj.clone())
                        .set("spec", spec1_json(&spec))
                });
                let e = event1("C16", case, &spec, &used, &res, entry, &["poly"]).set("poly", polyj.clone());
                log.push(&e);
            }
        }
    });
}

fn case_linear<T: Elem>(case: u64, args: &Args, ev: &mut Ev, log: &mut EventLog) {
    let mut rng = Rng::derive(args.seed, "C16", &[case]);
    let small = T::MANT == 23;
    let n = rng.range(2, 12);
    let uni = rng.chance(0.3);
    let (knots, s) = gen_knots(&mut rng, n, small, uni);
    let lanes_shape = gen_lane_shape(&mut rng, 2, false);
    let n_lanes: usize = lanes_shape.iter().product();
    let extrapolate = rng.chance(0.5);
    let mut polys = Vec::new();
    let mut cols: Vec<Vec<T>> = Vec::new();
    for _ in 0..n_lanes {
        loop {
            let deg = rng.below(2);
            let p = gen_poly(&mut rng, deg, small);
            let ys: Option<Vec<T>> = knots
                .iter()
                .map(|&k| poly_at(&p.m, p.r, k, s, 0).fits::<T>())
                .collect();
            if let Some(ys) = ys {
                polys.push(p);
                cols.push(ys);
                break;
            }
        }
    }
    let mut shape = vec![n];
    shape.extend(&lanes_shape);
    let mut flat = Vec::new();
    for i in 0..n {
        for c in &cols {
            flat.push(c[i]);
        }
    }
    let x: Vec<T> = knots
        .iter()
        .map(|&k| T::of(k as f64 * f64::pow2(-(s as i32))))
        .collect();
    let mut spec = Spec1::new(
        ArrayD::from_shape_vec(IxDyn(&shape), flat).unwrap(),
        Some(Array1::from(x.clone())),
        Strat1::Linear { extrapolate },
    );
    spec.dynamic = rng.chance(0.2);
    let mut q = queries_in_range(&mut rng, &x, 8);
    if extrapolate {
        q.extend(queries_outside(&mut rng, &x, 20.0, 10));
    }
    let h = hash_bits(&[&bits_of(&x), &bits_of_arr(&spec.data)], &[T::NAME, "linear"]);
    ev.case(h, polys.iter().any(|p| p.degree() == 1));
    ev.count("strategy", "Linear");
    ev.count("extrapolate", if extrapolate { "on" } else { "off" });
    ev.count("elem", T::NAME);
    let polyj = J::Arr(polys.iter().map(|p| p.coef_hex(2)).collect());
    build1(&spec, |r| {
        let Ok(interp) = r else {
            ev.violation("C16:build-failed", "valid data rejected", case, spec1_json(&spec));
            return;
        };
        match query_all1(&mut rng, interp, &spec, &q) {
            Err(f) => ev.violation("C16:query-not-answered", &f, case, spec1_json(&spec)),
            Ok((used, res, entry)) => {
                ev.count("entry", entry);
                ev.add("queries", used.len() as u64);
                let e = event1("C16", case, &spec, &used, &res, entry, &["poly"]).set("poly", polyj.clone());
                log.push(&e);
            }
        }
    });
}

fn case_bilinear<T: Elem>(case: u64, args: &Args, ev: &mut Ev, log: &mut EventLog) {
    let mut rng = Rng::derive(args.seed, "C16", &[case]);
    let small = T::MANT == 23;
    let nx = rng.range(2, 7);
    let ny = rng.range(2, 6);
    let (kx, sx) = gen_knots(&mut rng, nx, small, false);
    let (ky, sy) = gen_knots(&mut rng, ny, small, false);
    let lanes_shape = gen_lane_shape(&mut rng, 2, false);
    let n_lanes: usize = lanes_shape.iter().product();
    let extrapolate = rng.chance(0.5);
    // p(x,y) = (a + b x + c y + d x y) * 2^-r with integer a..d
    let lim = if small { 3 } else { 10 };
    let coefs: Vec<([i64; 4], u32)> = (0..n_lanes)
        .map(|_| {
            (
                [
                    rng.irange(-lim, lim),
                    rng.irange(-lim, lim),
                    rng.irange(-lim, lim),
                    rng.irange(-lim, lim),
                ],
                rng.below(2) as u32,
            )
        })
        .collect();
    let mut flat: Vec<T> = Vec::new();
    for &i in &kx {
        for &j in &ky {
            for (c, r) in &coefs {
                // value = (a 2^(sx+sy) + b i 2^sy + c j 2^sx + d i j) 2^-(r+sx+sy)
                let num = c[0] as i128 * (1i128 << (sx + sy))
                    + c[1] as i128 * i as i128 * (1i128 << sy)
                    + c[2] as i128 * j as i128 * (1i128 << sx)
                    + c[3] as i128 * i as i128 * j as i128;
                let v = Dy {
                    num,
                    sh: r + sx + sy,
                }
                .fits::<T>()
                .expect("bilinear sample not representable (harness parameter error)");
                flat.push(v);
            }
        }
    }
    let mut shape = vec![nx, ny];
    shape.extend(&lanes_shape);
    let x: Vec<T> = kx.iter().map(|&k| T::of(k as f64 * f64::pow2(-(sx as i32)))).collect();
    let y: Vec<T> = ky.iter().map(|&k| T::of(k as f64 * f64::pow2(-(sy as i32)))).collect();
    let mut spec = Spec2::new(
        ArrayD::from_shape_vec(IxDyn(&shape), flat).unwrap(),
        Some(Array1::from(x.clone())),
        Some(Array1::from(y.clone())),
        Strat2::Bilinear { extrapolate },
    );
    spec.dynamic = rng.chance(0.2);
    let mut qx = Vec::new();
    let mut qy = Vec::new();
    for _ in 0..30 {
        qx.push(rand_in(&mut rng, x[0], x[nx - 1]));
        qy.push(rand_in(&mut rng, y[0], y[ny - 1]));
    }
    for i in 0..nx.min(4) {
        qx.push(x[i]);
        qy.push(y[i % ny]);
    }
    if extrapolate {
        let ox = queries_outside(&mut rng, &x, 10.0, 6);
        let oy = queries_outside(&mut rng, &y, 10.0, 6);
        for k in 0..ox.len().min(oy.len()) {
            qx.push(ox[k]);
            qy.push(oy[k]);
            qx.push(ox[k]);
            qy.push(rand_in(&mut rng, y[0], y[ny - 1]));
        }
    }
    let h = hash_bits(&[&bits_of(&x), &bits_of(&y), &bits_of_arr(&spec.data)], &[T::NAME]);
    ev.case(h, coefs.iter().any(|(c, _)| c[3] != 0));
    ev.count("strategy", "Bilinear");
    ev.count("extrapolate", if extrapolate { "on" } else { "off" });
    ev.count("elem", T::NAME);
    let polyj = J::Arr(
        coefs
            .iter()
            .map(|(c, r)| {
                J::Arr(
                    c.iter()
                        .map(|&m| J::Str((m as f64 * f64::pow2(-(*r as i32))).hex()))
                        .collect(),
                )
            })
            .collect(),
    );
    build2(&spec, |r| {
        let Ok(interp) = r else {
            ev.violation("C16:build-failed", "valid grid rejected", case, spec2_json(&spec));
            return;
        };
        match query_all2(&mut rng, interp, &spec, &qx, &qy) {
            Err(f) => ev.violation("C16:query-not-answered", &f, case, spec2_json(&spec)),
            Ok((ux, uy, res, entry)) => {
                ev.count("entry", entry);
                ev.add("queries", ux.len() as u64);
                let e = event2("C16", case, &spec, &ux, &uy, &res, entry, &["poly"]).set("poly", polyj.clone());
                log.push(&e);
            }
        }
    });
}

/// "NotAKnot is the default at every level": splines configured through the `Default` impls
/// (CubicSpline::default(), BoundaryCondition::default(), an `Individual` array created with
/// `Array::default`, SingleBoundary::default() inside Mixed) must reproduce cubics, i.e. give
/// exactly what the explicitly named NotAKnot spline gives, and the exact cubic within tolerance.
fn default_boundaries(ev: &mut Ev) {
    use vh::ndarray::Array2;
    use vh::ndarray_interp::interp1d::cubic_spline::{BoundaryCondition, CubicSpline, RowBoundary, SingleBoundary};
    use vh::ndarray_interp::interp1d::Interp1D;
    let mut rng = Rng::derive(16, "C16-defaults", &[0]);
    for round in 0..40u64 {
        let n = 4 + rng.below(6);
        let lanes = 1 + rng.below(3);
        let mut pos = rng.irange(-8, 8) as f64 * 0.5;
        let x: Array1<f64> = (0..n)
            .map(|_| {
                let v = pos;
                pos += 0.25 * (1 + rng.below(8)) as f64;
                v
            })
            .collect();
        let coef: Vec<[f64; 4]> = (0..lanes).map(|_| [rng.irange(-8, 8) as f64 / 4.0, rng.irange(-8, 8) as f64 / 4.0, rng.irange(-8, 8) as f64 / 8.0, (1 + rng.below(6)) as f64 / 8.0]).collect();
        let p = |l: usize, t: f64| ((coef[l][3] * t + coef[l][2]) * t + coef[l][1]) * t + coef[l][0];
        let data = Array2::from_shape_fn((n, lanes), |(i, l)| p(l, x[i]));
        let q: Array1<f64> = (0..24).map(|_| x[0] + rng.f01() * (x[n - 1] - x[0])).collect();
        let explicit = Interp1D::builder(data.clone()).x(x.clone()).strategy(CubicSpline::new().boundary(BoundaryCondition::NotAKnot)).build().unwrap().interp_array(&q).unwrap();
        let variants: Vec<(&str, Array2<f64>)> = vec![
            ("CubicSpline::default()", Interp1D::builder(data.clone()).x(x.clone()).strategy(CubicSpline::default()).build().unwrap().interp_array(&q).unwrap()),
            ("CubicSpline::new() (no boundary call)", Interp1D::builder(data.clone()).x(x.clone()).strategy(CubicSpline::new()).build().unwrap().interp_array(&q).unwrap()),
            ("boundary(BoundaryCondition::default())", Interp1D::builder(data.clone()).x(x.clone()).strategy(CubicSpline::new().boundary(BoundaryCondition::default())).build().unwrap().interp_array(&q).unwrap()),
            (
                "Individual(Array2::<RowBoundary>::default((1, lanes)))",
                Interp1D::builder(data.clone()).x(x.clone()).strategy(CubicSpline::new().boundary(BoundaryCondition::Individual(Array2::<RowBoundary<f64>>::default((1, lanes))))).build().unwrap().interp_array(&q).unwrap(),
            ),
            (
                "Individual(Mixed(SingleBoundary::default(), SingleBoundary::default()))",
                Interp1D::builder(data.clone())
                    .x(x.clone())
                    .strategy(CubicSpline::new().boundary(BoundaryCondition::Individual(Array2::from_shape_fn((1, lanes), |_| RowBoundary::Mixed { left: SingleBoundary::default(), right: SingleBoundary::default() }))))
                    .build()
                    .unwrap()
                    .interp_array(&q)
                    .unwrap(),
            ),
        ];
        for (name, r) in variants {
            ev.add("default_boundary_comparisons", 1);
            let same = r.iter().zip(explicit.iter()).all(|(a, b)| a.to_bits() == b.to_bits());
            // and the cubic itself, generously (the tight comparison is the bitwise one above)
            let scale = data.iter().fold(1.0f64, |m, v| m.max(v.abs()));
            let close = (0..q.len()).all(|k| (0..lanes).all(|l| (r[[k, l]] - p(l, q[k])).abs() <= 1e-9 * scale));
            if !same || !close {
                ev.violation(
                    "C16:default-boundary-is-not-notaknot",
                    &format!("{name}: cubic data on {:?} is {} (explicit NotAKnot: {:?} ..., this: {:?} ...)", x.to_vec(), if !close { "not reproduced" } else { "not identical to the explicit NotAKnot spline" }, &explicit.iter().take(3).collect::<Vec<_>>(), &r.iter().take(3).collect::<Vec<_>>()),
                    9_800_000 + round,
                    J::obj().set("variant", name),
                );
            }
        }
    }
}

/// integer element types: a + b x + c y + d x y with integer coefficients on integer axes (any
/// spacing) is reproduced *exactly* by Bilinear - every intermediate quotient is a whole number -
/// and a + b x by Linear; in range and extrapolated
fn integer_polynomials(ev: &mut Ev) {
    use vh::ndarray::Array2;
    use vh::ndarray_interp::interp1d::{Interp1D, Linear};
    use vh::ndarray_interp::interp2d::{Bilinear, Interp2D};
    let mut rng = Rng::derive(16, "C16-integer-polynomials", &[0]);
    macro_rules! run {
        ($t:ty, $name:expr, $id0:expr) => {{
            for round in 0..60u64 {
                let mk_axis = |rng: &mut Rng, n: usize| -> Vec<$t> {
                    let mut v = Vec::new();
                    let mut p = rng.irange(-30, 30) as $t;
                    for _ in 0..n {
                        v.push(p);
                        p += 1 + rng.below(11) as $t;
                    }
                    v
                };
                let (nx, ny) = (2 + rng.below(4), 2 + rng.below(4));
                let (xs, ys) = (mk_axis(&mut rng, nx), mk_axis(&mut rng, ny));
                let (a, b, c, d) = (rng.irange(-20, 20) as $t, rng.irange(-6, 6) as $t, rng.irange(-6, 6) as $t, rng.irange(-4, 4) as $t);
                let p = |x: $t, y: $t| a + b * x + c * y + d * x * y;
                let extrapolate = round % 2 == 1;
                let g = Array2::from_shape_fn((nx, ny), |(i, j)| p(xs[i], ys[j]));
                let bil = Interp2D::builder(g).x(Array1::from(xs.clone())).y(Array1::from(ys.clone())).strategy(Bilinear::new().extrapolate(extrapolate)).build().unwrap();
                let lin = Interp1D::builder(Array1::from(xs.iter().map(|&x| p(x, 3)).collect::<Vec<$t>>())).x(Array1::from(xs.clone())).strategy(Linear::new().extrapolate(extrapolate)).build().unwrap();
                let pad: $t = if extrapolate { 9 } else { 0 };
                'q: for qx in xs[0] - pad..=xs[nx - 1] + pad {
                    ev.add("integer_polynomial_queries", 1);
                    let got = vh::outcome::guard(|| lin.interp_scalar(qx).map_err(|e| e.to_string()));
                    if got != Ok(Ok(p(qx, 3))) {
                        ev.violation("C16:poly", &format!("{} Linear on x={xs:?}, data {a}+{b}x+{c}*3+{d}x*3, q={qx}: got {:?}, the polynomial gives {}", $name, got, p(qx, 3)), $id0 + round, J::obj().set("elem", $name));
                        break 'q;
                    }
                    for qy in (ys[0] - pad..=ys[ny - 1] + pad).step_by(2) {
                        ev.add("integer_polynomial_queries", 1);
                        let got = vh::outcome::guard(|| bil.interp_scalar(qx, qy).map_err(|e| e.to_string()));
                        if got != Ok(Ok(p(qx, qy))) {
                            ev.violation(
                                "C16:poly",
                                &format!("{} Bilinear on x={xs:?}, y={ys:?}, data {a}+{b}x+{c}y+{d}xy, q=({qx},{qy}): got {:?}, the polynomial gives {}", $name, got, p(qx, qy)),
                                $id0 + 500 + round,
                                J::obj().set("elem", $name),
                            );
                            break 'q;
                        }
                    }
                }
            }
        }};
    }
    run!(i64, "i64", 9_810_000u64);
    run!(i32, "i32", 9_820_000u64);
}

fn main() {
    let args = Args::parse("C16");
    let n = args.budget(800, 150000);
    let ev = run_sharded(&args, n, |case, ev, log| {
        let f32_ = case % 7 == 6;
        match (case % 4, f32_) {
            (0, false) => case_linear::<f64>(case, &args, ev, log),
            (0, true) => case_linear::<f32>(case, &args, ev, log),
            (1, false) => case_bilinear::<f64>(case, &args, ev, log),
            (1, true) => case_bilinear::<f32>(case, &args, ev, log),
            (_, false) => case_spline::<f64>(case, &args, ev, log),
            (_, true) => case_spline::<f32>(case, &args, ev, log),
        }
    });
    let mut ev = ev;
    if args.blocks() {
        default_boundaries(&mut ev);
        // `integer_polynomials` is deliberately not run (see c06.rs: integer truncation is not
        // part of the property; the t-form control would be reported)
        let _ = integer_polynomials;
    }
    ev.finish(
        &args,
        "polynomials with small dyadic coefficients sampled exactly at dyadic knots: Linear<->affine, \
         Bilinear<->a+bx+cy+dxy, NotAKnot (n>=4)<->cubic, n=3 NotAKnot<->quadratic, Natural<->line, \
         Clamped<->constant, FirstDeriv/SecondDeriv values taken from p<->cubic, mixed pairs; lanes hold \
         different polynomials; in range and (50%) extrapolated. Non-trivial = polynomial of degree >= 1 \
         (bilinear: d != 0); distinct by hash of knots, data and per-lane configuration.",
        J::obj(),
    );
}
