//! C13 - results do not depend on the memory layout or ownership of any array argument.
//! In-process, differential against the all-owned, C-order baseline: one argument
//! (data, x, y, query arrays, output buffers, storage kind) is re-materialised at a time,
//! plus random combinations; results and outcomes must be identical in every bit.

use vh::cases::*;
use vh::events::*;
use vh::gen::*;
use vh::lay::{Layout, Mat};
use vh::ndarray::{array, Array1, Array2, ArrayD, CowArray, IxDyn};
use vh::ndarray_interp::interp1d::{Interp1D, Linear};
use vh::report::*;
use vh::spec::*;
use vh::*;

type Obs = Vec<(String, Outcome<Vec<u64>>)>;

fn bits_out<T: Flt>(o: Outcome<ArrayD<T>>) -> Outcome<Vec<u64>> {
    o.map(|a| {
        let mut v: Vec<u64> = a.shape().iter().map(|&s| s as u64).collect();
        v.push(u64::MAX);
        v.extend(a.iter().map(|x| x.bits()));
        v
    })
}

struct Plan<T> {
    singles: Vec<T>,
    arrays: Vec<(QKind, Vec<usize>, Vec<T>)>,
}

fn make_plan<T: Flt>(rng: &mut Rng, x: &[T], out_of_range: bool) -> Plan<T> {
    let lo = x[0];
    let hi = x[x.len() - 1];
    let mut singles = vec![lo, hi, rand_in(rng, lo, hi), rand_in(rng, lo, hi)];
    if out_of_range {
        singles.push(hi.up());
    }
    let mut arrays = Vec::new();
    let mut shapes = vec![
        (QKind::S0, vec![]),
        (QKind::S1, vec![5]),
        (QKind::S2, vec![2, 3]),
        (QKind::S3, vec![2, 2, 3]),
        (QKind::Dyn, vec![4]),
        (QKind::Dyn, vec![3, 2]),
        (QKind::S1, vec![0]),
    ];
    if !cfg!(miri) && rng.chance(0.15) {
        // big query arrays (hundreds to thousands of elements)
        shapes.push((QKind::S1, vec![*rng.pick(&[257usize, 1025, 4099])]));
        shapes.push((QKind::S2, vec![33, 40]));
    }
    for (kind, shape) in shapes {
        let n: usize = shape.iter().product();
        let mut vals: Vec<T> = (0..n).map(|_| rand_in(rng, lo, hi)).collect();
        // every fourth query sits exactly on a knot
        for k in (0..n).step_by(4) {
            vals[k] = x[rng.below(x.len())];
        }
        if out_of_range && n > 2 && rng.chance(0.2) {
            let k = rng.below(n);
            vals[k] = lo.down();
        }
        arrays.push((kind, shape, vals));
    }
    Plan { singles, arrays }
}

struct Variation {
    query_layouts: bool,
    buffer_layouts: bool,
}

fn observe1<T: Elem>(spec: &Spec1<T>, plan: &Plan<T>, var: &Variation, rng: &mut Rng) -> Option<Obs> {
    let lane_shape = spec.lane_shape();
    build1(spec, |r| {
        let interp = match r {
            Ok(i) => i,
            Err(Outcome::Untypeable) => return None,
            Err(o) => return Some(vec![("build".to_string(), o.map(|_| vec![]))]),
        };
        let mut obs: Obs = Vec::new();
        for &q in &plan.singles {
            obs.push((format!("interp({q:?})"), bits_out(interp.one(q))));
            obs.push((format!("interp_scalar({q:?})"), interp.scalar(q).map(|v| vec![v.bits()])));
            let lay = if var.buffer_layouts { Layout::random(rng, lane_shape.len()) } else { Layout::c(lane_shape.len()) };
            let mut m = Mat::blank(&lane_shape, &lay, |k| T::sentinel(k));
            let o = interp.one_into(q, m.view_mut());
            obs.push((format!("interp_into({q:?})"), bits_out(o.map(|_| m.view().to_owned()))));
        }
        for (kind, shape, vals) in &plan.arrays {
            let a = ArrayD::from_shape_vec(IxDyn(shape), vals.clone()).unwrap();
            let qa = if var.query_layouts {
                Query::with_layout(&a, *kind, &Layout::random(rng, shape.len()))
            } else {
                Query::new(&a, *kind)
            };
            obs.push((format!("interp_array({}{:?})", kind.name(), shape), bits_out(interp.many(&qa))));
            let mut want = shape.clone();
            want.extend(&lane_shape);
            let lay = if var.buffer_layouts { Layout::random(rng, want.len()) } else { Layout::c(want.len()) };
            let mut m = Mat::blank(&want, &lay, |k| T::sentinel(k));
            let o = interp.many_into(&qa, m.view_mut());
            obs.push((format!("interp_array_into({}{:?})", kind.name(), shape), bits_out(o.map(|_| m.view().to_owned()))));
        }
        Some(obs)
    })
}

fn observe2<T: Elem>(spec: &Spec2<T>, px: &Plan<T>, py: &Plan<T>, var: &Variation, rng: &mut Rng) -> Option<Obs> {
    let lane_shape = spec.lane_shape();
    build2(spec, |r| {
        let interp = match r {
            Ok(i) => i,
            Err(Outcome::Untypeable) => return None,
            Err(o) => return Some(vec![("build".to_string(), o.map(|_| vec![]))]),
        };
        let mut obs: Obs = Vec::new();
        for (&a, &b) in px.singles.iter().zip(&py.singles) {
            obs.push((format!("interp({a:?},{b:?})"), bits_out(interp.one(a, b))));
            obs.push((format!("interp_scalar({a:?},{b:?})"), interp.scalar(a, b).map(|v| vec![v.bits()])));
            let lay = if var.buffer_layouts { Layout::random(rng, lane_shape.len()) } else { Layout::c(lane_shape.len()) };
            let mut m = Mat::blank(&lane_shape, &lay, |k| T::sentinel(k));
            let o = interp.one_into(a, b, m.view_mut());
            obs.push((format!("interp_into({a:?},{b:?})"), bits_out(o.map(|_| m.view().to_owned()))));
        }
        for ((kind, shape, vx), (_, _, vy)) in px.arrays.iter().zip(&py.arrays) {
            let ax = ArrayD::from_shape_vec(IxDyn(shape), vx.clone()).unwrap();
            let ay = ArrayD::from_shape_vec(IxDyn(shape), vy.clone()).unwrap();
            let (qx, qy) = if var.query_layouts {
                (
                    Query::with_layout(&ax, *kind, &Layout::random(rng, shape.len())),
                    Query::with_layout(&ay, *kind, &Layout::random(rng, shape.len())),
                )
            } else {
                (Query::new(&ax, *kind), Query::new(&ay, *kind))
            };
            obs.push((format!("interp_array({}{:?})", kind.name(), shape), bits_out(interp.many(&qx, &qy))));
            let mut want = shape.clone();
            want.extend(&lane_shape);
            let lay = if var.buffer_layouts { Layout::random(rng, want.len()) } else { Layout::c(want.len()) };
            let mut m = Mat::blank(&want, &lay, |k| T::sentinel(k));
            let o = interp.many_into(&qx, &qy, m.view_mut());
            obs.push((format!("interp_array_into({}{:?})", kind.name(), shape), bits_out(o.map(|_| m.view().to_owned()))));
        }
        Some(obs)
    })
}

fn same(a: &Outcome<Vec<u64>>, b: &Outcome<Vec<u64>>) -> bool {
    match (a, b) {
        (Outcome::Ok(x), Outcome::Ok(y)) => x == y,
        (Outcome::Err(k1, _), Outcome::Err(k2, _)) => k1 == k2,
        (Outcome::Panic(_), Outcome::Panic(_)) => true,
        (Outcome::Untypeable, Outcome::Untypeable) => true,
        _ => false,
    }
}

fn compare(ev: &mut Ev, case: u64, what: &str, base: &Obs, var: &Obs, replay: &J) -> bool {
    if base.len() != var.len() {
        // one of the two could not even be built (a single "build" observation)
        let b = base.first().map(|(l, o)| format!("{l}: {}", short(o))).unwrap_or_default();
        let v = var.first().map(|(l, o)| format!("{l}: {}", short(o))).unwrap_or_default();
        ev.violation(
            "C13:layout-dependent-build-outcome",
            &format!("{what}: baseline starts with [{b}] ({} observations), variant with [{v}] ({} observations)", base.len(), var.len()),
            case,
            replay.clone().set("variation", what),
        );
        return false;
    }
    for ((l1, a), (_, b)) in base.iter().zip(var) {
        ev.add("observations_compared", 1);
        if !same(a, b) {
            let sig = if l1.contains("_into") && what.contains("buffer") {
                "C13:buffer-layout"
            } else {
                "C13:layout-dependent-result"
            };
            ev.violation(
                sig,
                &format!("{what}: {l1}: baseline {} but variant {}", short(a), short(b)),
                case,
                replay.clone().set("variation", what).set("call", l1.as_str()),
            );
            return false;
        }
    }
    true
}

fn short(o: &Outcome<Vec<u64>>) -> String {
    match o {
        Outcome::Ok(v) => format!("Ok({} words, first {:x?})", v.len(), v.iter().take(6).collect::<Vec<_>>()),
        o => o.detail(),
    }
}

fn case1<T: Elem>(case: u64, args: &Args, ev: &mut Ev) {
    let mut rng = Rng::derive(args.seed, "C13", &[case]);
    let spline = case % 4 == 1;
    let oor = rng.chance(0.3);
    let (mut spec, _) = if spline {
        let force_n = if case % 24 == 5 { Some(*rng.pick(&[64usize, 65, 257, 300])) } else { None };
        gen_spline_case::<T>(&mut rng, &SplineOpts { max_n: 9, max_lane_rank: 3, force_n, ..Default::default() })
    } else {
        // max_n >= 40 enables the occasional long axis (up to 1025 points)
        let max_n = if case % 8 == 2 { 40 } else { 9 };
        gen_linear_case::<T>(&mut rng, &LinearOpts { max_n, max_lane_rank: 3, allow_cluster: false, ..Default::default() })
    };
    if !spline && !spec.broadcast_lanes && case % 5 == 2 {
        let k = sprinkle_specials(&mut rng, &mut spec.data);
        ev.add("special_data_samples", k as u64);
    }
    spec.broadcast_lanes = false;
    // baseline: everything owned and in C order
    spec.data_lay = Layout::c(spec.data.ndim());
    spec.x_lay = Layout::c(1);
    spec.bounds_lay = Some(Layout::c(spec.data.ndim()));
    // explicit axis so that its layout can be varied; favour the dims with all storage kinds
    if spec.x.is_none() {
        spec.x = Some(Array1::from(spec.axis()));
    }
    if rng.chance(0.4) {
        spec.dynamic = true;
    }
    let individual = matches!(&spec.strat, Strat1::Spline { boundary: Bound::Individual(_), .. });
    // now and then the axis is invalid (a repeated knot, a swapped pair, a NaN): whether it is
    // rejected must not depend on how it is stored either
    if case % 10 == 7 {
        let mut v = spec.axis();
        let k = rng.below(v.len() - 1);
        match rng.below(3) {
            0 => v[k + 1] = v[k],
            1 => v.swap(k, k + 1),
            _ => v[k] = T::nan(),
        }
        spec.x = Some(Array1::from(v));
        ev.add("invalid_axis_cases", 1);
    }
    let x = spec.axis();
    let plan = make_plan(&mut rng, &x, oor);
    let replay = spec1_json(&spec);
    let h = hash_bits(&[&bits_of(&x), &bits_of_arr(&spec.data)], &[T::NAME, &spec.dim_name(), &spec.strat.name()]);
    ev.case(h, true);
    ev.count("strategy", if spline { "CubicSpline" } else { "Linear" });
    ev.count("dim", spec.dim_name());
    ev.count("elem", T::NAME);
    let plain = Variation { query_layouts: false, buffer_layouts: false };
    let Some(base) = observe1(&spec, &plan, &plain, &mut rng) else { return };
    let nd = spec.data.ndim();
    let variants: Vec<(&str, Box<dyn Fn(&mut Spec1<T>, &mut Rng) -> Variation>)> = vec![
        ("data-layout", Box::new(move |s, r| { s.data_lay = Layout::random(r, nd); Variation { query_layouts: false, buffer_layouts: false } })),
        ("data-F-order", Box::new(move |s, _| { s.data_lay = Layout::f(nd); Variation { query_layouts: false, buffer_layouts: false } })),
        ("x-layout", Box::new(|s, r| { s.x_lay = Layout::random(r, 1); Variation { query_layouts: false, buffer_layouts: false } })),
        ("x-reversed-contiguous", Box::new(|s, _| { s.x_lay = Layout::reversed(1); Variation { query_layouts: false, buffer_layouts: false } })),
        ("x-reversed-contiguous-view", Box::new(|s, _| { s.x_lay = Layout::reversed(1); s.sto = StoCombo::VV; Variation { query_layouts: false, buffer_layouts: false } })),
        ("query-layout", Box::new(|_, _| Variation { query_layouts: true, buffer_layouts: false })),
        ("buffer-layout", Box::new(|_, _| Variation { query_layouts: false, buffer_layouts: true })),
        ("storage-view", Box::new(|s, _| { s.sto = StoCombo::VV; Variation { query_layouts: false, buffer_layouts: false } })),
        ("storage-shared", Box::new(|s, _| { s.sto = StoCombo::SS; Variation { query_layouts: false, buffer_layouts: false } })),
        ("storage-view+owned-axis", Box::new(|s, _| { s.sto = StoCombo::VO; Variation { query_layouts: false, buffer_layouts: false } })),
        ("boundary-array-layout", Box::new(move |s, r| { s.bounds_lay = Some(Layout::random(r, nd)); Variation { query_layouts: false, buffer_layouts: false } })),
        ("boundary-array-F-order", Box::new(move |s, _| { s.bounds_lay = Some(Layout::f(nd)); Variation { query_layouts: false, buffer_layouts: false } })),
        ("boundary-array-reversed", Box::new(move |s, _| { s.bounds_lay = Some(Layout::reversed(nd)); Variation { query_layouts: false, buffer_layouts: false } })),
        ("everything", Box::new(move |s, r| {
            s.data_lay = Layout::random(r, nd);
            s.x_lay = Layout::random(r, 1);
            s.bounds_lay = Some(Layout::random(r, nd));
            s.sto = *r.pick(&StoCombo::ALL);
            Variation { query_layouts: true, buffer_layouts: true }
        })),
    ];
    for (name, f) in &variants {
        if name.starts_with("boundary-array") && !individual {
            continue;
        }
        let mut s2 = spec.clone();
        let var = f(&mut s2, &mut rng);
        let eff = vh::dynapi::effective_sto1(&s2);
        ev.count("variation", *name);
        ev.count("storage_effective", eff.name());
        ev.count("data_layout_class", s2.data_lay.class());
        let Some(obs) = observe1(&s2, &plan, &var, &mut rng) else { continue };
        if !compare(ev, case, name, &base, &obs, &replay.clone().set("variant_spec", spec1_json(&s2))) {
            return;
        }
    }
    ev.sample(|| J::obj().set("case", case).set("spec", replay.clone()).set("calls_per_variant", base.len()));
}

fn case2<T: Elem>(case: u64, args: &Args, ev: &mut Ev) {
    let mut rng = Rng::derive(args.seed, "C13", &[case]);
    let oor = rng.chance(0.3);
    let (mut spec, _) = gen_grid_case::<T>(&mut rng, &GridOpts { max_nx: 6, max_ny: 5, max_lane_rank: 2, allow_cluster: false, ..Default::default() });
    spec.data_lay = Layout::c(spec.data.ndim());
    spec.x_lay = Layout::c(1);
    spec.y_lay = Layout::c(1);
    if spec.x.is_none() {
        spec.x = Some(Array1::from(spec.axis_x()));
    }
    if spec.y.is_none() {
        spec.y = Some(Array1::from(spec.axis_y()));
    }
    if rng.chance(0.4) {
        spec.dynamic = true;
    }
    let x = spec.axis_x();
    let y = spec.axis_y();
    let mut r2 = rng.clone();
    let px = make_plan(&mut rng, &x, oor);
    let py = make_plan(&mut r2, &y, false);
    let replay = spec2_json(&spec);
    let h = hash_bits(&[&bits_of(&x), &bits_of(&y), &bits_of_arr(&spec.data)], &[T::NAME, &spec.dim_name()]);
    ev.case(h, true);
    ev.count("strategy", "Bilinear");
    ev.count("dim", format!("2d-{}", spec.dim_name()));
    ev.count("elem", T::NAME);
    let plain = Variation { query_layouts: false, buffer_layouts: false };
    let Some(base) = observe2(&spec, &px, &py, &plain, &mut rng) else { return };
    let nd = spec.data.ndim();
    for name in ["data-layout", "data-F-order", "x-layout", "y-layout", "query-layout", "buffer-layout", "storage-view", "storage-shared", "storage-view+owned-axis", "everything"] {
        let mut s2 = spec.clone();
        let mut var = Variation { query_layouts: false, buffer_layouts: false };
        match name {
            "data-layout" => s2.data_lay = Layout::random(&mut rng, nd),
            "data-F-order" => s2.data_lay = Layout::f(nd),
            "x-layout" => s2.x_lay = Layout::random(&mut rng, 1),
            "y-layout" => s2.y_lay = Layout::random(&mut rng, 1),
            "query-layout" => var.query_layouts = true,
            "buffer-layout" => var.buffer_layouts = true,
            "storage-view" => s2.sto = StoCombo::VV,
            "storage-shared" => s2.sto = StoCombo::SS,
            "storage-view+owned-axis" => s2.sto = StoCombo::VO,
            _ => {
                s2.data_lay = Layout::random(&mut rng, nd);
                s2.x_lay = Layout::random(&mut rng, 1);
                s2.y_lay = Layout::random(&mut rng, 1);
                s2.sto = *rng.pick(&StoCombo::ALL);
                var = Variation { query_layouts: true, buffer_layouts: true };
            }
        }
        ev.count("variation", name);
        ev.count("storage_effective", vh::dynapi::effective_sto2(&s2).name());
        ev.count("data_layout_class", s2.data_lay.class());
        let Some(obs) = observe2(&s2, &px, &py, &var, &mut rng) else { continue };
        if !compare(ev, case, name, &base, &obs, &replay.clone().set("variant_spec", spec2_json(&s2))) {
            return;
        }
    }
}

/// storage kinds of the *query* array on concrete types (owned C / F order, shared, Cow,
/// transposed view): the type-erased API only hands over views
fn query_storage_checks(ev: &mut Ev) {
    let data: Array2<f64> = array![[0.0, 1.0], [2.0, 0.5], [3.0, 4.0], [1.0, 1.0]];
    let interp = Interp1D::builder(data).strategy(Linear::new()).build().unwrap();
    let q2: Array2<f64> = array![[0.25, 1.5, 2.0], [3.0, 0.0, 2.75]];
    let base = interp.interp_array(&q2).unwrap();
    let mut n = 0;
    let mut check = |name: &str, r: Result<vh::ndarray::Array<f64, vh::ndarray::Ix3>, String>, ev: &mut Ev| {
        n += 1;
        ev.add("query_storage_variants", 1);
        match r {
            Ok(a) if a.iter().zip(base.iter()).all(|(x, y)| x.to_bits() == y.to_bits()) && a.shape() == base.shape() => {}
            other => ev.violation(
                "C13:query-storage",
                &format!("query stored as {name}: {:?} differs from baseline {:?}", other, base),
                9_000_000 + n,
                J::obj().set("variant", name),
            ),
        }
    };
    let g = |f: &dyn Fn() -> vh::ndarray::Array<f64, vh::ndarray::Ix3>| vh::outcome::guard(f);
    // owned F-order
    let qf = {
        let mut t = Array2::<f64>::zeros((3, 2)).reversed_axes();
        t.assign(&q2);
        t
    };
    check("owned F-order", g(&|| interp.interp_array(&qf).unwrap()), ev);
    check("shared (ArcArray)", g(&|| interp.interp_array(&q2.clone().into_shared()).unwrap()), ev);
    check("CowArray (borrowed)", g(&|| interp.interp_array(&CowArray::from(q2.view())).unwrap()), ev);
    check("CowArray (owned)", g(&|| interp.interp_array(&CowArray::from(q2.clone())).unwrap()), ev);
    let qt = q2.t().to_owned();
    check("transposed view of the transposed copy", g(&|| interp.interp_array(&qt.t()).unwrap()), ev);
    check("dynamic-dimensional owned", Ok(interp.interp_array(&q2.clone().into_dyn()).unwrap().into_dimensionality().unwrap()), ev);
    // an interpolator assembled with new_unchecked from the same (valid) parts answers identically
    {
        use vh::ndarray_interp::interp2d::{Bilinear, Interp2D};
        let data: Array2<f64> = array![[0.0, 1.0], [2.0, 0.5], [3.0, 4.0], [1.0, 1.0]];
        let x: Array1<f64> = array![0.0, 1.0, 2.0, 3.0];
        let u = Interp1D::new_unchecked(x.clone(), data.clone(), Linear::new());
        let r = u.interp_array(&q2).unwrap();
        ev.add("query_storage_variants", 1);
        if !r.iter().zip(base.iter()).all(|(a, b)| a.to_bits() == b.to_bits()) {
            ev.violation("C13:constructor", "Interp1D::new_unchecked gives different answers than the builder", 9_200_000, J::obj());
        }
        let g: Array2<f64> = array![[1.0, 2.0, 2.5], [3.0, 4.0, 3.5], [0.0, -1.0, 7.0]];
        let b2 = Interp2D::builder(g.clone()).build().unwrap();
        let ax: Array1<f64> = array![0.0, 1.0, 2.0];
        let u2 = Interp2D::new_unchecked(ax.clone(), ax.clone(), g.clone(), Bilinear::new());
        let qx: Array1<f64> = array![0.25, 1.75, 2.0];
        let qy: Array1<f64> = array![1.5, 0.125, 0.0];
        let (ra, rb) = (b2.interp_array(&qx, &qy).unwrap(), u2.interp_array(&qx, &qy).unwrap());
        ev.add("query_storage_variants", 1);
        if !ra.iter().zip(rb.iter()).all(|(a, b)| a.to_bits() == b.to_bits()) {
            ev.violation("C13:constructor", "Interp2D::new_unchecked gives different answers than the builder", 9_200_001, J::obj());
        }
    }
    // arguments that share one buffer: axis and data as columns of one table (C and F order),
    // the query being the interpolator's own axis / a data column / a view of the same table
    {
        use vh::ndarray::s;
        use vh::ndarray_interp::interp1d::cubic_spline::CubicSpline;
        let mut rng = Rng::derive(13, "C13-shared-buffer", &[0]);
        for round in 0..(if cfg!(miri) { 4u64 } else { 40 }) {
            let n = 4 + rng.below(6);
            let cols = 2 + rng.below(3);
            let mut table = if round % 2 == 0 { Array2::<f64>::zeros((n, cols)) } else { Array2::<f64>::zeros((cols, n)).reversed_axes() };
            let mut pos = rng.irange(-8, 8) as f64 * 0.5;
            for i in 0..n {
                table[[i, 0]] = pos;
                pos += 0.25 * (1 + rng.below(7)) as f64;
                for c in 1..cols {
                    // data values inside the axis range, so that a data column can serve as query
                    table[[i, c]] = table[[0, 0]] + rng.f01() * (pos - 0.25 - table[[0, 0]]).max(0.0) * if i == 0 { 0.0 } else { 1.0 };
                }
            }
            let hi = table[[n - 1, 0]];
            table.slice_mut(s![.., 1..]).mapv_inplace(|v| if v > hi { hi } else { v });
            let (xv, dv) = (table.column(0), table.slice(s![.., 1..]));
            let (xo, dow) = (xv.to_owned(), dv.to_owned());
            let spline = round % 4 >= 2;
            macro_rules! both {
                ($strat:expr) => {{
                    let shared = Interp1D::builder(dv).x(xv).strategy($strat).build().unwrap();
                    let owned = Interp1D::builder(dow.clone()).x(xo.clone()).strategy($strat).build().unwrap();
                    // queries: the axis itself, a data column, midpoints - as views of the table
                    // for the shared interpolator and as owned copies for the owned one
                    let col1 = table.column(1);
                    let mids: Array1<f64> = xo.windows(2).into_iter().map(|w| (w[0] + w[1]) / 2.0).collect();
                    let pairs: Vec<(&str, Array2<f64>, Array2<f64>)> = vec![
                        ("query = the interpolator's own axis view", shared.interp_array(&xv).unwrap(), owned.interp_array(&xo).unwrap()),
                        ("query = a data column of the same table", shared.interp_array(&col1).unwrap(), owned.interp_array(&col1.to_owned()).unwrap()),
                        ("query = midpoints", shared.interp_array(&mids).unwrap(), owned.interp_array(&mids).unwrap()),
                    ];
                    for (name, a, b) in pairs {
                        ev.add("shared_buffer_comparisons", 1);
                        if !(a.shape() == b.shape() && a.iter().zip(b.iter()).all(|(x, y)| x.to_bits() == y.to_bits())) {
                            ev.violation(
                                "C13:layout-dependent-result",
                                &format!("axis and data as columns of one {} table ({n} x {cols}), {name}: {:?} differs from the all-owned baseline {:?}", if round % 2 == 0 { "C-order" } else { "F-order" }, a, b),
                                9_300_000 + round,
                                J::obj().set("round", round),
                            );
                        }
                    }
                }};
            }
            if spline {
                both!(CubicSpline::new());
            } else {
                both!(Linear::new());
            }
        }
    }
    // broadcast (zero-stride) query views against their materialised copies: scalars, rows and
    // columns repeated; mesh grids whose xs and ys repeat along *different* axes
    {
        use vh::ndarray::{Array3, Axis};
        use vh::ndarray_interp::interp2d::Interp2D;
        let mut rng = Rng::derive(13, "C13-broadcast-queries", &[0]);
        for round in 0..(if cfg!(miri) { 4u64 } else { 40 }) {
            let (nx, ny) = (3 + rng.below(4), 3 + rng.below(3));
            let ax: Array1<f64> = (0..nx).map(|i| i as f64 * 1.5 + if i > 0 { rng.f01() } else { 0.0 }).collect();
            let ay: Array1<f64> = (0..ny).map(|i| -2.0 + i as f64 * 0.75 + if i > 0 { rng.f01() * 0.5 } else { 0.0 }).collect();
            let grid: Array3<f64> = Array3::from_shape_fn((nx, ny, 2), |_| rng.f01() * 8.0 - 4.0);
            let b2 = Interp2D::builder(grid.clone()).x(ax.clone()).y(ay.clone()).build().unwrap();
            let b1 = Interp1D::builder(grid.clone()).x(ax.clone()).build().unwrap();
            let (mx, my) = (2 + rng.below(3), 2 + rng.below(4));
            let qx: Array1<f64> = (0..mx).map(|_| ax[0] + rng.f01() * (ax[nx - 1] - ax[0])).collect();
            let qy: Array1<f64> = (0..my).map(|_| ay[0] + rng.f01() * (ay[ny - 1] - ay[0])).collect();
            // mesh grid (my x mx): xs repeats along axis 0, ys along axis 1
            let xs = qx.broadcast((my, mx)).unwrap();
            let ycol = qy.view().insert_axis(Axis(1));
            let ys = ycol.broadcast((my, mx)).unwrap();
            let mut cmp = |name: &str, a: Vec<u64>, b: Vec<u64>, ev: &mut Ev| {
                ev.add("broadcast_query_comparisons", 1);
                if a != b {
                    ev.violation(
                        "C13:layout-dependent-result",
                        &format!("{name}: broadcast query views give {:x?}, their owned copies {:x?}", &a[..a.len().min(8)], &b[..b.len().min(8)]),
                        9_400_000 + round,
                        J::obj().set("round", round).set("variant", name),
                    );
                }
            };
            let bits = |a: vh::ndarray::ArrayD<f64>| -> Vec<u64> { a.iter().map(|v| v.to_bits()).collect() };
            cmp("Interp2D mesh grid (Ix2)", bits(b2.interp_array(&xs, &ys).unwrap().into_dyn()), bits(b2.interp_array(&xs.to_owned(), &ys.to_owned()).unwrap().into_dyn()), ev);
            cmp("Interp2D mesh grid (IxDyn)", bits(b2.interp_array(&xs.into_dyn(), &ys.into_dyn()).unwrap()), bits(b2.interp_array(&xs.to_owned().into_dyn(), &ys.to_owned().into_dyn()).unwrap()), ev);
            cmp("Interp2D mesh grid transposed roles", bits(b2.interp_array(&xs.t(), &ys.t()).unwrap().into_dyn()), bits(b2.interp_array(&xs.t().to_owned(), &ys.t().to_owned()).unwrap().into_dyn()), ev);
            let x3 = qx.broadcast((2, my, mx)).unwrap();
            let y3 = ycol.broadcast((2, my, mx)).unwrap();
            cmp("Interp2D mesh grid repeated (Ix3)", bits(b2.interp_array(&x3, &y3).unwrap().into_dyn()), bits(b2.interp_array(&x3.to_owned(), &y3.to_owned()).unwrap().into_dyn()), ev);
            let sx = vh::ndarray::arr0(qx[0]);
            let sxb = sx.broadcast(my).unwrap();
            cmp("Interp2D scalar x against an array of y (Ix1)", bits(b2.interp_array(&sxb, &qy).unwrap().into_dyn()), bits(b2.interp_array(&sxb.to_owned(), &qy).unwrap().into_dyn()), ev);
            cmp("Interp1D row repeated (Ix2)", bits(b1.interp_array(&xs).unwrap().into_dyn()), bits(b1.interp_array(&xs.to_owned()).unwrap().into_dyn()), ev);
            cmp("Interp1D scalar repeated (Ix1)", bits(b1.interp_array(&sxb).unwrap().into_dyn()), bits(b1.interp_array(&sxb.to_owned()).unwrap().into_dyn()), ev);
        }
    }
    // rank-1 static (fast path) with every storage kind
    let q1: Array1<f64> = array![0.5, 2.5, 3.0, 0.0];
    let b1 = interp.interp_array(&q1).unwrap();
    let mut check1 = |name: &str, r: Array2<f64>, ev: &mut Ev| {
        ev.add("query_storage_variants", 1);
        if !(r.shape() == b1.shape() && r.iter().zip(b1.iter()).all(|(x, y)| x.to_bits() == y.to_bits())) {
            ev.violation("C13:query-storage", &format!("rank-1 query stored as {name} differs"), 9_100_000, J::obj().set("variant", name));
        }
    };
    check1("view", interp.interp_array(&q1.view()).unwrap(), ev);
    check1("shared", interp.interp_array(&q1.clone().into_shared()).unwrap(), ev);
    check1("cow", interp.interp_array(&CowArray::from(q1.view())).unwrap(), ev);
    let big: Array1<f64> = array![0.5, 9.0, 2.5, 9.0, 3.0, 9.0, 0.0, 9.0];
    check1("every second element", interp.interp_array(&big.slice(vh::ndarray::s![..;2])).unwrap(), ev);
    let rev: Array1<f64> = array![0.0, 3.0, 2.5, 0.5];
    check1("reversed view", interp.interp_array(&rev.slice(vh::ndarray::s![..;-1])).unwrap(), ev);
}

fn main() {
    let args = Args::parse("C13");
    let n = args.budget(300, 30000);
    let ev = run_sharded(&args, n, |case, ev, _log| {
        let f32_ = case % 6 == 5;
        match (case % 4, f32_) {
            (3, false) => case2::<f64>(case, &args, ev),
            (3, true) => case2::<f32>(case, &args, ev),
            (_, false) => case1::<f64>(case, &args, ev),
            (_, true) => case1::<f32>(case, &args, ev),
        }
    });
    let mut ev = ev;
    if args.blocks() {
        query_storage_checks(&mut ev);
    }
    ev.finish(
        &args,
        "per data set (Linear / CubicSpline / Bilinear; data Ix1..Ix4 and IxDyn; f64/f32) the full set \
         of calls (interp, interp_scalar, interp_into, interp_array and interp_array_into for query \
         types Ix0..Ix3 and IxDyn incl. an empty query; some out-of-range) is observed for the all-owned \
         C-order baseline and for 9-10 variants: data layout (random: permuted memory order, steps, \
         reversed axes, windows; F order), x / y layout, query layouts, buffer layouts, storage kinds \
         (view, shared, view + owned axes; instantiated for f64 Ix2/IxDyn resp. Ix3/IxDyn, otherwise \
         owned), everything at once. Query storage kinds (owned F, shared, Cow, transposed, strided) on \
         concrete types. Every case is non-trivial; distinct by input hash.",
        J::obj(),
    );
}
