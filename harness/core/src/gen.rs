//! Input generators shared by all drivers: axes, data, queries, boundary trees.
//! Magnitudes are kept in ranges where no intermediate of the crate's formulas can
//! overflow or go subnormal (overflow is not "rounding").

use crate::flt::Flt;
use crate::rng::Rng;
use crate::spec::*;
use ndarray::{ArrayD, IxDyn};

#[derive(Clone, Copy, Debug, PartialEq, Eq, Hash)]
pub enum AxisClass {
    /// 0,1,2,... given explicitly
    Unit,
    /// exactly uniform, dyadic start and step
    UniformDyadic,
    /// start + i*h with inexact h (nearly uniform)
    UniformInexact,
    /// geometric progression
    Geometric,
    /// distinct random multiples of 2^-k
    DyadicRandom,
    /// random full-mantissa gaps with bounded mesh ratio
    FullMantissa,
    /// groups of knots only 1..3 ulps apart
    Clustered,
    /// runs of exactly equal intervals with different widths (concatenated uniform grids)
    PiecewiseUniform,
    /// first value 0 and last value n-1 exactly (like the default index axis), interior knots
    /// moved off the integers
    IndexEnds,
    /// an exactly uniform grid in which one window of interior knots has been re-placed (late
    /// or bunched samples): uniform wherever a few probes look, irregular in between
    UniformDisturbed,
}

impl AxisClass {
    pub fn name(&self) -> &'static str {
        match self {
            AxisClass::Unit => "unit",
            AxisClass::UniformDyadic => "uniform-dyadic",
            AxisClass::UniformInexact => "uniform-inexact",
            AxisClass::Geometric => "geometric",
            AxisClass::DyadicRandom => "dyadic-random",
            AxisClass::FullMantissa => "full-mantissa",
            AxisClass::Clustered => "clustered-ulps",
            AxisClass::PiecewiseUniform => "piecewise-uniform",
            AxisClass::IndexEnds => "index-ends",
            AxisClass::UniformDisturbed => "uniform-disturbed",
        }
    }
    pub const SMOOTH: [AxisClass; 9] = [
        AxisClass::Unit,
        AxisClass::UniformDyadic,
        AxisClass::UniformInexact,
        AxisClass::Geometric,
        AxisClass::DyadicRandom,
        AxisClass::FullMantissa,
        AxisClass::PiecewiseUniform,
        AxisClass::IndexEnds,
        AxisClass::UniformDisturbed,
    ];
    pub const ALL: [AxisClass; 10] = [
        AxisClass::Unit,
        AxisClass::UniformDyadic,
        AxisClass::UniformInexact,
        AxisClass::Geometric,
        AxisClass::DyadicRandom,
        AxisClass::FullMantissa,
        AxisClass::Clustered,
        AxisClass::PiecewiseUniform,
        AxisClass::IndexEnds,
        AxisClass::UniformDisturbed,
    ];
}

#[derive(Clone, Debug)]
pub struct AxisOpts {
    /// largest allowed ratio between the widest and the narrowest interval (>= 1)
    pub max_ratio: f64,
    /// binary exponent range of the overall scale factor
    pub scale_exp: (i32, i32),
}

impl AxisOpts {
    pub fn spline() -> Self {
        AxisOpts {
            max_ratio: 64.0,
            scale_exp: (-40, 40),
        }
    }
    pub fn linear() -> Self {
        AxisOpts {
            max_ratio: 1e6,
            scale_exp: (-100, 100),
        }
    }
}

fn scale2<T: Flt>(rng: &mut Rng, range: (i32, i32)) -> f64 {
    // mostly scale 1, sometimes a random power of two
    let lim = if T::MANT == 23 { 30 } else { 1000 };
    let lo = range.0.max(-lim);
    let hi = range.1.min(lim);
    if rng.chance(0.6) || lo >= hi {
        1.0
    } else {
        f64::pow2(rng.irange(lo as i64, hi as i64) as i32)
    }
}

/// make the sequence strictly increasing in T (needed after rounding to f32)
pub fn fix_increasing<T: Flt>(v: &mut [T]) {
    for i in 1..v.len() {
        if !(v[i] > v[i - 1]) {
            v[i] = v[i - 1].up();
        }
    }
}

pub fn mesh_ratio<T: Flt>(x: &[T]) -> f64 {
    let mut lo = f64::INFINITY;
    let mut hi: f64 = 0.0;
    for w in x.windows(2) {
        let h = w[1].f() - w[0].f();
        lo = lo.min(h);
        hi = hi.max(h);
    }
    if x.len() < 2 {
        1.0
    } else {
        hi / lo
    }
}

pub fn is_uniform<T: Flt>(x: &[T]) -> bool {
    if x.len() < 3 {
        return true;
    }
    let h0 = x[1] - x[0];
    x.windows(2).all(|w| w[1] - w[0] == h0)
}

/// strictly increasing finite axis of n >= 1 points
pub fn gen_axis<T: Flt>(rng: &mut Rng, n: usize, class: AxisClass, opts: &AxisOpts) -> Vec<T> {
    assert!(n >= 1);
    let s = scale2::<T>(rng, opts.scale_exp);
    let mut v: Vec<T> = match class {
        AxisClass::Unit => (0..n).map(|i| T::of(i as f64)).collect(),
        AxisClass::UniformDyadic => {
            let h = f64::pow2(rng.irange(-6, 6) as i32) * (1 + 2 * rng.below(4)) as f64;
            let x0 = h * rng.irange(-40, 40) as f64;
            (0..n).map(|i| T::of((x0 + h * i as f64) * s)).collect()
        }
        AxisClass::UniformInexact => {
            let h = *rng.pick(&[0.1, 0.3, 1.0 / 3.0, 0.7, 1.1, 2.5e-3, 17.3]);
            let x0 = *rng.pick(&[0.0, -1.7, 0.3, 1000.1, -33.3]);
            (0..n).map(|i| T::of((x0 + h * i as f64) * s)).collect()
        }
        AxisClass::Geometric => {
            // ratio limited so that the mesh ratio bound holds over n points
            let rmax = opts.max_ratio.min(1e6);
            let mut r = *rng.pick(&[2.0, 1.5, 1.25, 1.1, 3.0, 10.0]);
            let mut guard = 0;
            loop {
                let mut total = 1.0f64;
                for _ in 0..n.saturating_sub(2) {
                    total *= r;
                }
                if total <= rmax || guard > 60 {
                    break;
                }
                r = 1.0 + (r - 1.0) * 0.5;
                guard += 1;
            }
            let start = *rng.pick(&[1.0, 0.001, 7.5, 1e-3]);
            let sign_flip = rng.chance(0.3);
            let mut x = start;
            let mut out = Vec::with_capacity(n);
            for _ in 0..n {
                out.push(x);
                x *= r;
            }
            if sign_flip {
                // negative, increasing towards zero
                out = out.into_iter().rev().map(|a| -a).collect();
            }
            out.into_iter().map(|a| T::of(a * s)).collect()
        }
        AxisClass::DyadicRandom => {
            // gaps are integers in 1..=R times 2^-k
            let r = (opts.max_ratio.min(64.0)) as usize;
            let k = rng.irange(0, 6) as i32;
            let unit = f64::pow2(-k);
            let mut pos = rng.irange(-200, 200);
            let mut out = Vec::with_capacity(n);
            for _ in 0..n {
                out.push(T::of(pos as f64 * unit * s));
                pos += 1 + rng.below(r.max(1)) as i64;
            }
            out
        }
        AxisClass::FullMantissa => {
            let ratio = opts.max_ratio.min(1e6);
            let base = *rng.pick(&[1.0, 0.37, 12.9, 1e-2]);
            let x0 = *rng.pick(&[0.0, -3.3, 5.77, -1234.5, 88.8]);
            let mut x = x0 + rng.f01();
            let mut out = Vec::with_capacity(n);
            let wide = rng.chance(0.5);
            for _ in 0..n {
                out.push(T::of(x * s));
                let u = rng.f01();
                let g = if wide {
                    // roughly log-uniform in [1, ratio], built without powf
                    let emax = 63 - (ratio.max(1.0) as u64).leading_zeros() as i64;
                    let e = rng.irange(0, emax.max(0)) as i32;
                    (f64::pow2(e) * (1.0 + u)).min(ratio)
                } else {
                    1.0 + u * (ratio.min(4.0) - 1.0)
                };
                x += base * g.min(ratio);
            }
            out
        }
        AxisClass::PiecewiseUniform => {
            // integer multiples of a dyadic unit: runs of equal gaps, widths 1..8 units
            let unit = f64::pow2(rng.irange(-4, 3) as i32);
            let mut pos = rng.irange(-100, 100);
            let mut out = Vec::with_capacity(n);
            let mut gap = 1 + rng.below(8) as i64;
            let mut run = 1 + rng.below(4);
            for _ in 0..n {
                out.push(T::of(pos as f64 * unit * s));
                if run == 0 {
                    gap = 1 + rng.below(8) as i64;
                    run = 1 + rng.below(4);
                }
                run -= 1;
                pos += gap;
            }
            out
        }
        AxisClass::UniformDisturbed => {
            // dyadic uniform grid; knots a..b (interior) re-placed strictly inside
            // (x[a-1], x[b]) on an 8x finer grid: gaps between h/8 and 7h (mesh ratio <= 56)
            let h = f64::pow2(rng.irange(-4, 4) as i32);
            let x0 = h * rng.irange(-40, 40) as f64;
            let mut out: Vec<f64> = (0..n).map(|i| x0 + h * i as f64).collect();
            if n >= 5 {
                let len = 1 + rng.below((n - 3).min(6));
                let a = 1 + rng.below(n - 2 - len + 1);
                let b = a + len; // knots a..b are re-placed, x[a-1] and x[b] stay
                let slots = (len + 1) * 8; // fine-grid cells between x[a-1] and x[b]
                let mut picks: Vec<usize> = Vec::new();
                while picks.len() < len {
                    let s = 1 + rng.below(slots - 1);
                    if !picks.contains(&s) {
                        picks.push(s);
                    }
                }
                picks.sort();
                for (k, s) in picks.iter().enumerate() {
                    out[a + k] = out[a - 1] + h / 8.0 * *s as f64;
                }
            }
            out.into_iter().map(|v| T::of(v * s)).collect()
        }
        AxisClass::IndexEnds => {
            // gaps between 1/4 and 7/4: mesh ratio <= 7
            let mut out: Vec<T> = (0..n).map(|i| T::of(i as f64)).collect();
            let mut moved = false;
            for i in 1..n.saturating_sub(1) {
                let j = rng.irange(-6, 6);
                if j != 0 {
                    moved = true;
                }
                out[i] = T::of(i as f64 + j as f64 / 16.0);
            }
            if !moved && n >= 3 {
                out[1] = T::of(1.25);
            }
            out
        }
        AxisClass::Clustered => {
            let mut out: Vec<T> = Vec::with_capacity(n);
            let mut x = T::of(*rng.pick(&[1.0, -2.5, 0.1, 1000.0, -1e-3]) * s);
            for i in 0..n {
                out.push(x);
                if i + 1 == n {
                    break;
                }
                if rng.chance(0.7) {
                    for _ in 0..(1 + rng.below(3)) {
                        x = x.up();
                    }
                } else {
                    let gap = T::of((0.01 + rng.f01()) * s.abs());
                    let nx = x + gap;
                    x = if nx > x { nx } else { x.up() };
                }
            }
            out
        }
    };
    fix_increasing(&mut v);
    // enforce the mesh ratio limit after rounding (only relevant for f32 / odd cases)
    if !matches!(class, AxisClass::Clustered) && mesh_ratio(&v) > opts.max_ratio * 1.01 {
        // fall back to an exactly uniform axis with the same ends
        let h = T::of(f64::pow2(rng.irange(-3, 3) as i32));
        let x0 = v[0];
        v = (0..n).map(|i| x0 + h * T::of(i as f64)).collect();
        fix_increasing(&mut v);
    }
    debug_assert!(v.iter().all(|a| a.is_finite()));
    v
}

#[derive(Clone, Copy, Debug, PartialEq, Eq, Hash)]
pub enum DataClass {
    /// small multiples of 2^-k
    Dyadic,
    /// random full-mantissa values in [-1,1] * scale
    FullMantissa,
    /// large common offset plus small variation
    Offset,
    /// many exact zeros and sign changes
    Sparse,
    /// smooth function of the row index (slowly varying)
    Smooth,
    /// a constant background (per trailing index) with one rectangular block of other values:
    /// padded / masked / saturated data, many exactly equal neighbours
    Plateau,
}

impl DataClass {
    pub const ALL: [DataClass; 6] = [
        DataClass::Dyadic,
        DataClass::FullMantissa,
        DataClass::Offset,
        DataClass::Sparse,
        DataClass::Smooth,
        DataClass::Plateau,
    ];
    pub fn name(&self) -> &'static str {
        match self {
            DataClass::Dyadic => "dyadic",
            DataClass::FullMantissa => "full-mantissa",
            DataClass::Offset => "offset",
            DataClass::Sparse => "sparse",
            DataClass::Smooth => "smooth",
            DataClass::Plateau => "plateau",
        }
    }
}

/// finite data of the given shape; `scale_exp` is the binary exponent range of an
/// overall scale factor
pub fn gen_data<T: Flt>(
    rng: &mut Rng,
    shape: &[usize],
    class: DataClass,
    scale_exp: (i32, i32),
) -> ArrayD<T> {
    let s = scale2::<T>(rng, scale_exp);
    let n: usize = shape.iter().product();
    let rows = shape.first().copied().unwrap_or(1).max(1);
    let lanes = (n / rows).max(1);
    let mut v: Vec<T> = Vec::with_capacity(n);
    let k = rng.irange(0, 8) as i32;
    let unit = f64::pow2(-k);
    let offset = *rng.pick(&[1.0e6, -3.0e4, 1024.0, 7.0]);
    let phase: Vec<f64> = (0..lanes).map(|_| rng.f01() * 3.0).collect();
    // plateau: block [a0, b0) x [a1, b1) over the first two axes; background per trailing index
    let d1 = shape.get(1).copied().unwrap_or(1).max(1);
    let tail = (lanes / d1).max(1);
    let (a0, a1) = (rng.below(rows), rng.below(d1));
    let (b0, b1) = (a0 + 1 + rng.below(rows - a0), a1 + 1 + rng.below(d1 - a1));
    let bg: Vec<f64> = (0..tail).map(|_| *rng.pick(&[0.0, -1.0, 0.0, 255.0, 0.5])).collect();
    for idx in 0..n {
        let row = idx / lanes;
        let lane = idx % lanes;
        let val = match class {
            DataClass::Dyadic => rng.irange(-512, 512) as f64 * unit,
            DataClass::FullMantissa => rng.f01() * 2.0 - 1.0,
            DataClass::Offset => offset + (rng.f01() - 0.5),
            DataClass::Sparse => {
                if rng.chance(0.5) {
                    0.0
                } else {
                    (rng.f01() * 2.0 - 1.0) * if rng.chance(0.2) { 100.0 } else { 1.0 }
                }
            }
            DataClass::Smooth => {
                // a cheap smooth profile without transcendental functions
                let t = row as f64 / rows as f64 + phase[lane];
                let w = t - t.floor();
                4.0 * w * (1.0 - w) * (1.0 + lane as f64 * 0.25) + 0.01 * rng.f01()
            }
            DataClass::Plateau => {
                let (i1, t) = (lane / tail, lane % tail);
                if row >= a0 && row < b0 && i1 >= a1 && i1 < b1 {
                    rng.irange(-64, 64) as f64 * 0.25 + t as f64
                } else {
                    bg[t]
                }
            }
        };
        v.push(T::of(val * s));
    }
    ArrayD::from_shape_vec(IxDyn(shape), v).unwrap()
}

/// trailing (lane) shapes including non-square, length-1 and (optionally) length-0 axes
pub fn gen_lane_shape(rng: &mut Rng, max_rank: usize, allow_zero: bool) -> Vec<usize> {
    let rank = rng.below(max_rank + 1);
    let mut s: Vec<usize> = (0..rank)
        .map(|_| {
            let r = rng.below(10);
            if r == 0 && allow_zero {
                0
            } else if r <= 2 {
                1
            } else {
                2 + rng.below(3)
            }
        })
        .collect();
    // keep the number of lanes moderate (the exact checker is per lane)
    while s.iter().product::<usize>() > 24 {
        let i = (0..s.len()).max_by_key(|&i| s[i]).unwrap();
        s[i] -= 1;
    }
    s
}

/// in-range query set: every knot, both neighbouring floats of every knot (clipped to the
/// range), midpoints and `extra` random points
pub fn queries_in_range<T: Flt>(rng: &mut Rng, x: &[T], extra: usize) -> Vec<T> {
    let lo = x[0];
    let hi = x[x.len() - 1];
    let mut q = Vec::new();
    for &k in x {
        q.push(k);
        let u = k.up();
        let d = k.down();
        if u <= hi {
            q.push(u);
        }
        if d >= lo {
            q.push(d);
        }
    }
    for w in x.windows(2) {
        let m = w[0] + (w[1] - w[0]) / T::of(2.0);
        if m >= lo && m <= hi {
            q.push(m);
        }
    }
    for _ in 0..extra {
        q.push(rand_in(rng, lo, hi));
    }
    // both zeros, when zero is in range
    if lo <= T::of(0.0) && T::of(0.0) <= hi {
        q.push(T::of(0.0));
        q.push(T::of(-0.0));
    }
    q
}

/// random value in [lo, hi]
pub fn rand_in<T: Flt>(rng: &mut Rng, lo: T, hi: T) -> T {
    let t = T::of(rng.f01());
    let v = lo + (hi - lo) * t;
    if v < lo {
        lo
    } else if v > hi {
        hi
    } else {
        v
    }
}

/// finite queries outside [lo, hi]: a few ulps to `far` spans away on both sides
pub fn queries_outside<T: Flt>(rng: &mut Rng, x: &[T], far: f64, count: usize) -> Vec<T> {
    let lo = x[0];
    let hi = x[x.len() - 1];
    let span = hi - lo;
    let mut q = vec![lo.down(), hi.up(), lo.down().down(), hi.up().up()];
    for _ in 0..count {
        let mag = match rng.below(4) {
            0 => rng.f01() * 0.01,
            1 => rng.f01(),
            2 => rng.f01() * 10.0,
            _ => rng.f01() * far,
        };
        let d = span * T::of(mag);
        let v = if rng.chance(0.5) { lo - d } else { hi + d };
        if v.is_finite() && (v < lo || v > hi) {
            q.push(v);
        }
    }
    q
}

pub fn gen_single_boundary<T: Flt>(rng: &mut Rng, which: usize, mag: f64) -> SB<T> {
    let val = |rng: &mut Rng| -> T {
        match rng.below(4) {
            0 => T::of(0.0),
            1 => T::of(rng.irange(-8, 8) as f64 * 0.25 * mag),
            _ => T::of((rng.f01() * 2.0 - 1.0) * mag),
        }
    };
    match which % 5 {
        0 => SB::NotAKnot,
        1 => SB::Natural,
        2 => SB::Clamped,
        3 => SB::FirstDeriv(val(rng)),
        _ => SB::SecondDeriv(val(rng)),
    }
}

/// a random per-lane boundary; `d1`/`d2` are natural magnitudes for first / second
/// derivative values (|y|/h, |y|/h^2)
pub fn gen_row_boundary<T: Flt>(rng: &mut Rng, d1: f64, d2: f64) -> RB<T> {
    match rng.below(8) {
        0 => RB::NotAKnot,
        1 => RB::Natural,
        2 => RB::Clamped,
        _ => {
            let l = rng.below(5);
            let r = rng.below(5);
            gen_mixed_pair(rng, l, r, d1, d2)
        }
    }
}

/// Mixed(left, right); when both ends are of the same kind the *same value* is used on both
/// ends now and then (equal end slopes / equal end curvatures)
pub fn gen_mixed_pair<T: Flt>(rng: &mut Rng, l: usize, r: usize, d1: f64, d2: f64) -> RB<T> {
    let left = gen_single_boundary(rng, l, if l == 3 { d1 } else { d2 });
    let right = gen_single_boundary(rng, r, if r == 3 { d1 } else { d2 });
    if l % 5 == r % 5 && rng.chance(0.35) {
        RB::Mixed(left.clone(), left)
    } else {
        RB::Mixed(left, right)
    }
}

/// hash of a list of bit patterns and labels (descriptor hashing)
pub fn hash_bits(parts: &[&[u64]], labels: &[&str]) -> u64 {
    let mut h: u64 = 0xcbf2_9ce4_8422_2325;
    let mut eat = |b: u64| {
        h ^= b;
        h = h.wrapping_mul(0x0000_0100_0000_01B3);
        h = h.rotate_left(23);
    };
    for p in parts {
        eat(p.len() as u64 ^ 0xabcd);
        for &b in *p {
            eat(b);
        }
    }
    for l in labels {
        eat(crate::rng::fnv(l.as_bytes()));
    }
    h
}

pub fn bits_of<T: Flt>(v: &[T]) -> Vec<u64> {
    v.iter().map(|a| a.bits()).collect()
}

pub fn bits_of_arr<T: Flt>(a: &ArrayD<T>) -> Vec<u64> {
    a.iter().map(|v| v.bits()).collect()
}
