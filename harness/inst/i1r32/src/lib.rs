//! instantiations of the interpolator zoo: rec / f32 (see vh-core::dynapi)
vh_core::def_with1!(with, f32, rec, [oo lean] [oo lean] [none lean] [none lean] [none lean] [none lean] [oo lean]);
