//! Small deterministic PRNG (xoshiro256** seeded through SplitMix64).
//! Every case derives its own generator from (VERIF_SEED, property tag, case index),
//! so a single case can be regenerated without replaying its predecessors.

#[derive(Clone, Debug)]
pub struct Rng {
    s: [u64; 4],
}

fn splitmix(x: &mut u64) -> u64 {
    *x = x.wrapping_add(0x9E37_79B9_7F4A_7C15);
    let mut z = *x;
    z = (z ^ (z >> 30)).wrapping_mul(0xBF58_476D_1CE4_E5B9);
    z = (z ^ (z >> 27)).wrapping_mul(0x94D0_49BB_1331_11EB);
    z ^ (z >> 31)
}

pub fn fnv(bytes: &[u8]) -> u64 {
    let mut h: u64 = 0xcbf2_9ce4_8422_2325;
    for b in bytes {
        h ^= *b as u64;
        h = h.wrapping_mul(0x0000_0100_0000_01B3);
    }
    h
}

impl Rng {
    pub fn new(seed: u64) -> Self {
        let mut x = seed;
        let s = [
            splitmix(&mut x),
            splitmix(&mut x),
            splitmix(&mut x),
            splitmix(&mut x),
        ];
        Rng { s }
    }

    /// generator for one case: seed, a textual tag (property / stream) and indices
    pub fn derive(seed: u64, tag: &str, idx: &[u64]) -> Self {
        let mut x = seed ^ fnv(tag.as_bytes()).rotate_left(17);
        let mut acc = splitmix(&mut x);
        for i in idx {
            let mut y = acc ^ i.wrapping_mul(0xD6E8_FEB8_6659_FD93);
            acc = splitmix(&mut y);
        }
        Rng::new(acc)
    }

    pub fn next_u64(&mut self) -> u64 {
        let r = self.s[1].wrapping_mul(5).rotate_left(7).wrapping_mul(9);
        let t = self.s[1] << 17;
        self.s[2] ^= self.s[0];
        self.s[3] ^= self.s[1];
        self.s[1] ^= self.s[2];
        self.s[0] ^= self.s[3];
        self.s[2] ^= t;
        self.s[3] = self.s[3].rotate_left(45);
        r
    }

    /// uniform in 0..n (n > 0)
    pub fn below(&mut self, n: usize) -> usize {
        debug_assert!(n > 0);
        ((self.next_u64() >> 11) % (n as u64)) as usize
    }

    /// uniform in lo..=hi
    pub fn range(&mut self, lo: usize, hi: usize) -> usize {
        lo + self.below(hi - lo + 1)
    }

    pub fn irange(&mut self, lo: i64, hi: i64) -> i64 {
        lo + self.below((hi - lo + 1) as usize) as i64
    }

    /// uniform in [0,1) with 53 random bits
    pub fn f01(&mut self) -> f64 {
        (self.next_u64() >> 11) as f64 / (1u64 << 53) as f64
    }

    /// true with probability p
    pub fn chance(&mut self, p: f64) -> bool {
        self.f01() < p
    }

    pub fn pick<'a, T>(&mut self, xs: &'a [T]) -> &'a T {
        &xs[self.below(xs.len())]
    }

    pub fn shuffle<T>(&mut self, xs: &mut [T]) {
        for i in (1..xs.len()).rev() {
            let j = self.below(i + 1);
            xs.swap(i, j);
        }
    }
}
