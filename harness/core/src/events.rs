//! Event records for the offline exact checker: everything as hex bit patterns, so the
//! checker sees exactly what the crate saw and returned.

use crate::flt::Flt;
use crate::json::J;
use crate::spec::*;
use ndarray::ArrayD;

pub fn hexes<T: Flt>(v: impl IntoIterator<Item = T>) -> J {
    J::Arr(v.into_iter().map(|a| J::Str(a.hex())).collect())
}

pub fn strat1_json<T: Flt>(s: &Strat1<T>, n_lanes: usize) -> J {
    match s {
        Strat1::Linear { extrapolate } => J::obj()
            .set("kind", "linear")
            .set("extrapolate", *extrapolate),
        Strat1::Spline {
            extrapolate,
            boundary,
        } => J::obj()
            .set("kind", "spline")
            .set("extrapolate", *extrapolate)
            .set("boundary_name", boundary.name())
            .set("boundary", boundary.json(n_lanes)),
        Strat1::Rec { min, .. } => J::obj().set("kind", "rec").set("min", *min),
    }
}

/// one observed batch of 1-D queries. `res` is the flattened result in logical order
/// (query index major, lanes minor).
#[allow(clippy::too_many_arguments)]
pub fn event1<T: Flt>(
    prop: &str,
    case: u64,
    spec: &Spec1<T>,
    q: &[T],
    res: &[T],
    entry: &str,
    checks: &[&str],
) -> J {
    J::obj()
        .set("prop", prop)
        .set("case", case)
        .set("model", "interp1")
        .set("ty", T::NAME)
        .set("x", hexes(spec.axis()))
        .set("default_axis", spec.x.is_none())
        .set("shape", J::arr(spec.data.shape().to_vec()))
        .set("data", hexes(spec.data.iter().copied()))
        .set("strategy", strat1_json(&spec.strat, spec.n_lanes()))
        .set("dim", spec.dim_name())
        .set("entry", entry)
        .set("q", hexes(q.iter().copied()))
        .set("res", hexes(res.iter().copied()))
        .set("checks", J::arr(checks.iter().map(|s| J::s(s)).collect::<Vec<_>>()))
}

#[allow(clippy::too_many_arguments)]
pub fn event2<T: Flt>(
    prop: &str,
    case: u64,
    spec: &Spec2<T>,
    qx: &[T],
    qy: &[T],
    res: &[T],
    entry: &str,
    checks: &[&str],
) -> J {
    let extrap = match &spec.strat {
        Strat2::Bilinear { extrapolate } => *extrapolate,
        _ => false,
    };
    J::obj()
        .set("prop", prop)
        .set("case", case)
        .set("model", "interp2")
        .set("ty", T::NAME)
        .set("x", hexes(spec.axis_x()))
        .set("y", hexes(spec.axis_y()))
        .set("shape", J::arr(spec.data.shape().to_vec()))
        .set("data", hexes(spec.data.iter().copied()))
        .set(
            "strategy",
            J::obj().set("kind", "bilinear").set("extrapolate", extrap),
        )
        .set("dim", spec.dim_name())
        .set("entry", entry)
        .set("q", hexes(qx.iter().copied()))
        .set("qy", hexes(qy.iter().copied()))
        .set("res", hexes(res.iter().copied()))
        .set("checks", J::arr(checks.iter().map(|s| J::s(s)).collect::<Vec<_>>()))
}

/// flatten an n-d result (query dims ++ lane dims) in logical order
pub fn flat<T: Flt>(a: &ArrayD<T>) -> Vec<T> {
    a.iter().copied().collect()
}

/// compact replay description of a 1-D spec (explicit inputs, human readable)
pub fn spec1_json<T: Flt>(spec: &Spec1<T>) -> J {
    J::obj()
        .set("ty", T::NAME)
        .set("dim", spec.dim_name())
        .set("x", hexes(spec.axis()))
        .set("x_values", J::arr(spec.axis().iter().map(|v| J::Num(v.f())).collect::<Vec<_>>()))
        .set("default_axis", spec.x.is_none())
        .set("shape", J::arr(spec.data.shape().to_vec()))
        .set("data", hexes(spec.data.iter().copied()))
        .set("strategy", strat1_json(&spec.strat, spec.n_lanes()))
        .set("strategy_name", spec.strat.name())
        .set("data_layout", spec.data_lay.class())
        .set("x_layout", spec.x_lay.class())
        .set("storage", crate::dynapi::effective_sto1(spec).name())
        .set("constructor", if spec.ctor_unchecked && spec.x.is_some() { "new_unchecked (Linear)" } else { "builder" })
}

pub fn spec2_json<T: Flt>(spec: &Spec2<T>) -> J {
    J::obj()
        .set("ty", T::NAME)
        .set("dim", spec.dim_name())
        .set("x", hexes(spec.axis_x()))
        .set("y", hexes(spec.axis_y()))
        .set("default_x", spec.x.is_none())
        .set("default_y", spec.y.is_none())
        .set("shape", J::arr(spec.data.shape().to_vec()))
        .set("data", hexes(spec.data.iter().copied()))
        .set("strategy_name", spec.strat.name())
        .set("data_layout", spec.data_lay.class())
        .set("storage", crate::dynapi::effective_sto2(spec).name())
        .set("constructor", if spec.ctor_unchecked && spec.x.is_some() && spec.y.is_some() { "new_unchecked (Bilinear)" } else { "builder" })
}
