//! Minimal JSON value + writer (no external crates).

use std::collections::BTreeMap;
use std::fmt::Write;

#[derive(Clone, Debug, PartialEq)]
pub enum J {
    Null,
    Bool(bool),
    Int(i128),
    Num(f64),
    Str(String),
    Arr(Vec<J>),
    Obj(Vec<(String, J)>),
}

impl J {
    pub fn obj() -> J {
        J::Obj(Vec::new())
    }
    pub fn set(mut self, k: &str, v: impl Into<J>) -> J {
        self.put(k, v);
        self
    }
    pub fn put(&mut self, k: &str, v: impl Into<J>) {
        if let J::Obj(items) = self {
            let v = v.into();
            if let Some(slot) = items.iter_mut().find(|(kk, _)| kk == k) {
                slot.1 = v;
            } else {
                items.push((k.to_string(), v));
            }
        } else {
            panic!("J::put on non-object");
        }
    }
    pub fn s(v: impl AsRef<str>) -> J {
        J::Str(v.as_ref().to_string())
    }
    pub fn arr<T: Into<J>>(v: impl IntoIterator<Item = T>) -> J {
        J::Arr(v.into_iter().map(|x| x.into()).collect())
    }
    pub fn from_map(m: &BTreeMap<String, u64>) -> J {
        J::Obj(m.iter().map(|(k, v)| (k.clone(), J::Int(*v as i128))).collect())
    }

    pub fn write(&self, out: &mut String) {
        match self {
            J::Null => out.push_str("null"),
            J::Bool(b) => out.push_str(if *b { "true" } else { "false" }),
            J::Int(i) => {
                let _ = write!(out, "{i}");
            }
            J::Num(f) => {
                if f.is_finite() {
                    let _ = write!(out, "{f:e}");
                } else {
                    // JSON has no non-finite numbers
                    let _ = write!(out, "\"{f}\"");
                }
            }
            J::Str(s) => write_str(s, out),
            J::Arr(v) => {
                out.push('[');
                for (i, x) in v.iter().enumerate() {
                    if i > 0 {
                        out.push(',');
                    }
                    x.write(out);
                }
                out.push(']');
            }
            J::Obj(v) => {
                out.push('{');
                for (i, (k, x)) in v.iter().enumerate() {
                    if i > 0 {
                        out.push(',');
                    }
                    write_str(k, out);
                    out.push(':');
                    x.write(out);
                }
                out.push('}');
            }
        }
    }

    pub fn dump(&self) -> String {
        let mut s = String::new();
        self.write(&mut s);
        s
    }
}

fn write_str(s: &str, out: &mut String) {
    out.push('"');
    for c in s.chars() {
        match c {
            '"' => out.push_str("\\\""),
            '\\' => out.push_str("\\\\"),
            '\n' => out.push_str("\\n"),
            '\r' => out.push_str("\\r"),
            '\t' => out.push_str("\\t"),
            c if (c as u32) < 0x20 => {
                let _ = write!(out, "\\u{:04x}", c as u32);
            }
            c => out.push(c),
        }
    }
    out.push('"');
}

impl From<bool> for J {
    fn from(v: bool) -> J {
        J::Bool(v)
    }
}
impl From<u64> for J {
    fn from(v: u64) -> J {
        J::Int(v as i128)
    }
}
impl From<usize> for J {
    fn from(v: usize) -> J {
        J::Int(v as i128)
    }
}
impl From<i64> for J {
    fn from(v: i64) -> J {
        J::Int(v as i128)
    }
}
impl From<i32> for J {
    fn from(v: i32) -> J {
        J::Int(v as i128)
    }
}
impl From<u32> for J {
    fn from(v: u32) -> J {
        J::Int(v as i128)
    }
}
impl From<f64> for J {
    fn from(v: f64) -> J {
        J::Num(v)
    }
}
impl From<&str> for J {
    fn from(v: &str) -> J {
        J::Str(v.to_string())
    }
}
impl From<String> for J {
    fn from(v: String) -> J {
        J::Str(v)
    }
}
impl From<&String> for J {
    fn from(v: &String) -> J {
        J::Str(v.clone())
    }
}
impl<T: Into<J>> From<Vec<T>> for J {
    fn from(v: Vec<T>) -> J {
        J::Arr(v.into_iter().map(|x| x.into()).collect())
    }
}
impl<T: Into<J> + Clone> From<&[T]> for J {
    fn from(v: &[T]) -> J {
        J::Arr(v.iter().cloned().map(|x| x.into()).collect())
    }
}
impl<T: Into<J>> From<Option<T>> for J {
    fn from(v: Option<T>) -> J {
        match v {
            Some(x) => x.into(),
            None => J::Null,
        }
    }
}
