//! C18 - custom strategies get validated inputs, correct targets, faithful accessors.
//! In-process: recording / failing user strategies (the crate's own extension point) for
//! Interp1D and Interp2D with declared minimum 0..4.

use vh::events::*;
use vh::gen::*;
use vh::ndarray::{Array1, ArrayD, Axis, IxDyn};
use vh::rec::{BuildRec, CallRec, RecHandle};
use vh::report::*;
use vh::spec::*;
use vh::*;

fn strictly_increasing_bits<T: Flt>(bits: &[u64]) -> bool {
    bits.windows(2).all(|w| T::from_bits64(w[0]) < T::from_bits64(w[1]))
}

fn axis_variants<T: Flt>(rng: &mut Rng, n: usize) -> Vec<(String, Option<Vec<T>>)> {
    let mut out: Vec<(String, Option<Vec<T>>)> = vec![("default".into(), None)];
    let base = |m: usize| -> Vec<T> { (0..m).map(|i| T::of(i as f64 * 0.75 - 1.0)).collect() };
    out.push(("valid".into(), Some(base(n))));
    if n >= 1 {
        out.push(("short".into(), Some(base(n - 1))));
    }
    out.push(("long".into(), Some(base(n + 1))));
    if n >= 2 {
        let p = rng.below(n - 1);
        let mut v = base(n);
        v[p + 1] = v[p];
        out.push(("tie".into(), Some(v)));
        let mut v = base(n);
        v.swap(p, p + 1);
        out.push(("swap".into(), Some(v)));
        let mut v = base(n);
        v.reverse();
        out.push(("decreasing".into(), Some(v)));
    }
    if n >= 1 {
        let p = rng.below(n);
        let mut v = base(n);
        v[p] = T::nan();
        out.push(("nan".into(), Some(v)));
    }
    out
}

/// (a) the user builder is only invoked with validated inputs
fn check_build_rec<T: Flt>(
    ev: &mut Ev,
    case: u64,
    what: &str,
    builds: &[BuildRec],
    min: usize,
    two_d: bool,
    replay: &J,
) -> bool {
    for b in builds {
        ev.add("user_build_invocations", 1);
        let mut problems: Vec<String> = Vec::new();
        let d0 = b.data_shape.first().copied().unwrap_or(0);
        if b.x_bits.len() != d0 {
            problems.push(format!("x has {} values, data axis 0 has {}", b.x_bits.len(), d0));
        }
        if !strictly_increasing_bits::<T>(&b.x_bits) {
            problems.push("x is not strictly increasing".into());
        }
        if d0 < min {
            problems.push(format!("data axis 0 has {d0} points, declared minimum is {min}"));
        }
        if two_d {
            let y = b.y_bits.as_ref().expect("2-D build record without y");
            let d1 = b.data_shape.get(1).copied().unwrap_or(0);
            if y.len() != d1 {
                problems.push(format!("y has {} values, data axis 1 has {}", y.len(), d1));
            }
            if !strictly_increasing_bits::<T>(y) {
                problems.push("y is not strictly increasing".into());
            }
            if d1 < min {
                problems.push(format!("data axis 1 has {d1} points, declared minimum is {min}"));
            }
            if b.data_shape.len() < 2 {
                problems.push("data has fewer than 2 dimensions".into());
            }
        } else if b.data_shape.is_empty() {
            problems.push("data has no dimension".into());
        }
        if !problems.is_empty() {
            ev.violation(
                "C18:user-build-got-unvalidated-input",
                &format!("{what}: user strategy build() invoked although {:?}", problems),
                case,
                replay.clone(),
            );
            return false;
        }
    }
    true
}

fn case_builder1<T: Elem>(case: u64, args: &Args, ev: &mut Ev) {
    let mut rng = Rng::derive(args.seed, "C18-b1", &[case]);
    let min = (case % 5) as usize;
    let dynamic = case % 2 == 0;
    for n in 0..=min + 2 {
        let trailing: Vec<usize> = if rng.chance(0.5) { vec![] } else { vec![2] };
        if dynamic && rng.chance(0.1) && n == 0 {
            // rank-0 dynamic data
            let h = RecHandle::new();
            let mut spec = Spec1::new(ArrayD::<T>::zeros(IxDyn(&[])), None, Strat1::Rec { min, h: h.clone() });
            spec.dynamic = true;
            let o = build1(&spec, |r| r.map(|_| ()).err());
            ev.add("builder_rows", 1);
            if !h.lock().builds.is_empty() {
                ev.violation("C18:user-build-got-unvalidated-input", "build() invoked for 0-dimensional data", case, spec1_json(&spec));
            }
            let _ = o;
        }
        let mut shape = vec![n];
        shape.extend(&trailing);
        for (aname, ax) in axis_variants::<T>(&mut rng, n) {
            let h = RecHandle::new();
            let data = gen_data::<T>(&mut rng, &shape, DataClass::Dyadic, (0, 0));
            let mut spec = Spec1::new(data.clone(), ax.clone().map(Array1::from), Strat1::Rec { min, h: h.clone() });
            spec.dynamic = dynamic;
            let what = format!("Rec1<{min}> {} data {:?} axis {}", spec.dim_name(), shape, aname);
            let built = build1(&spec, |r| match r {
                Ok(_) => Outcome::Ok(()),
                Err(o) => o,
            });
            if matches!(built, Outcome::Untypeable) {
                continue;
            }
            ev.add("builder_rows", 1);
            ev.case(vh::rng::fnv(what.as_bytes()) ^ case, true);
            ev.count("declared_minimum", format!("{min}"));
            ev.count("axis_variant", &aname);
            ev.count("build_outcome", built.tag());
            if n == min {
                ev.sample(|| J::obj().set("row", what.as_str()).set("build_outcome", built.tag()).set("user_build_invoked", !h.lock().builds.is_empty()));
            }
            let replay = spec1_json(&spec).set("row", what.as_str());
            let builds = h.lock().builds.clone();
            if !check_build_rec::<T>(ev, case, &what, &builds, min, false, &replay) {
                return;
            }
            if let Outcome::Panic(m) = &built {
                ev.violation("C18:builder-panicked", &format!("{what}: {m}"), case, replay.clone());
                return;
            }
            // what the strategy saw is what the caller gave
            for b in &builds {
                let want_x: Vec<u64> = bits_of(&spec.axis());
                if b.x_bits != want_x || b.data_bits != bits_of_arr(&data) || b.data_shape != shape {
                    ev.violation("C18:user-build-got-different-data", &format!("{what}: axis or data handed to build() differ from the caller's"), case, replay.clone());
                    return;
                }
            }
            if built.is_ok() && builds.len() != 1 {
                ev.violation("C18:user-build-count", &format!("{what}: interpolator built but build() was invoked {} times", builds.len()), case, replay.clone());
                return;
            }
        }
    }
    // injected build error reaches the caller unchanged
    for (kind, msg) in [("NotEnoughData", "injected-1"), ("Monotonic", "m"), ("ShapeError", "shape: [1, 2]"), ("ValueError", "")] {
        let h = RecHandle::new();
        h.lock().fail_build = Some((kind.to_string(), msg.to_string()));
        let data = gen_data::<T>(&mut rng, &[5], DataClass::Dyadic, (0, 0));
        let mut spec = Spec1::new(data, None, Strat1::Rec { min: 2, h: h.clone() });
        spec.dynamic = dynamic;
        let o = build1(&spec, |r| match r {
            Ok(_) => Outcome::Ok(()),
            Err(o) => o,
        });
        ev.add("injected_build_errors", 1);
        match &o {
            Outcome::Err(k, m) if k == kind && m == msg => {}
            Outcome::Untypeable => {}
            other => ev.violation(
                "C18:build-error-not-propagated",
                &format!("strategy build() failed with {kind}({msg:?}) but the caller got {}", other.detail()),
                case,
                spec1_json(&spec),
            ),
        }
    }
}

fn case_builder2<T: Elem>(case: u64, args: &Args, ev: &mut Ev) {
    let mut rng = Rng::derive(args.seed, "C18-b2", &[case]);
    let min = (case % 5) as usize;
    let dynamic = case % 2 == 0;
    for a in 0..=min + 1 {
        for b in [min.saturating_sub(1), min, min + 1] {
            let trailing: Vec<usize> = if rng.chance(0.5) { vec![] } else { vec![2] };
            let mut shape = vec![a, b];
            shape.extend(&trailing);
            let xs = axis_variants::<T>(&mut rng, a);
            let ys = axis_variants::<T>(&mut rng, b);
            for (xn, xa) in &xs {
                // pair every x variant with two y variants
                for (yn, ya) in [&ys[0], &ys[rng.below(ys.len())]] {
                    let h = RecHandle::new();
                    let data = gen_data::<T>(&mut rng, &shape, DataClass::Dyadic, (0, 0));
                    let mut spec = Spec2::new(data.clone(), xa.clone().map(Array1::from), ya.clone().map(Array1::from), Strat2::Rec { min, h: h.clone() });
                    spec.dynamic = dynamic;
                    let what = format!("Rec2<{min}> {} data {:?} x {} y {}", spec.dim_name(), shape, xn, yn);
                    let built = build2(&spec, |r| match r {
                        Ok(_) => Outcome::Ok(()),
                        Err(o) => o,
                    });
                    if matches!(built, Outcome::Untypeable) {
                        continue;
                    }
                    ev.add("builder_rows", 1);
                    ev.case(vh::rng::fnv(what.as_bytes()) ^ case, true);
                    ev.count("declared_minimum", format!("2d-{min}"));
                    ev.count("build_outcome", built.tag());
                    let replay = spec2_json(&spec).set("row", what.as_str());
                    let builds = h.lock().builds.clone();
                    if !check_build_rec::<T>(ev, case, &what, &builds, min, true, &replay) {
                        return;
                    }
                    if let Outcome::Panic(m) = &built {
                        ev.violation("C18:builder-panicked", &format!("{what}: {m}"), case, replay.clone());
                        return;
                    }
                    for br in &builds {
                        if br.x_bits != bits_of(&spec.axis_x()) || br.y_bits.as_deref() != Some(&bits_of(&spec.axis_y())[..]) || br.data_bits != bits_of_arr(&data) {
                            ev.violation("C18:user-build-got-different-data", &format!("{what}: axes or data handed to build() differ"), case, replay.clone());
                            return;
                        }
                    }
                }
            }
        }
    }
    // aliased axes (two views of one table): build() must still only see validated axes
    for _ in 0..12 {
        let (nx, ny) = (2 + rng.below(4), 2 + rng.below(3));
        let table = vh::cases::gen_alias_table::<T>(&mut rng, nx, ny, true);
        let h = RecHandle::new();
        let data = gen_data::<T>(&mut rng, &[nx, ny], DataClass::Dyadic, (0, 0));
        let mut spec = Spec2::new(data, None, None, Strat2::Rec { min: 2, h: h.clone() }).aliased_axes(Array1::from(table), nx, ny);
        spec.dynamic = true;
        let built = build2(&spec, |r| match r {
            Ok(_) => Outcome::Ok(()),
            Err(o) => o,
        });
        if matches!(built, Outcome::Untypeable) {
            break;
        }
        ev.add("builder_rows", 1);
        ev.add("aliased_axes_rows", 1);
        let replay = spec2_json(&spec).set("row", "aliased axes");
        let builds = h.lock().builds.clone();
        if !check_build_rec::<T>(ev, case, "Rec2<2> aliased axes (x = table[..nx], y = table[..;2])", &builds, 2, true, &replay) {
            return;
        }
    }
    let h = RecHandle::new();
    h.lock().fail_build = Some(("ValueError".into(), "injected 2-D".into()));
    let data = gen_data::<T>(&mut rng, &[3, 3], DataClass::Dyadic, (0, 0));
    let mut spec = Spec2::new(data, None, None, Strat2::Rec { min: 2, h: h.clone() });
    spec.dynamic = dynamic;
    let o = build2(&spec, |r| match r {
        Ok(_) => Outcome::Ok(()),
        Err(o) => o,
    });
    ev.add("injected_build_errors", 1);
    match &o {
        Outcome::Err(k, m) if k == "ValueError" && m == "injected 2-D" => {}
        Outcome::Untypeable => {}
        other => ev.violation("C18:build-error-not-propagated", &format!("2-D: caller got {}", other.detail()), case, spec2_json(&spec)),
    }
}

/// long axes (512..1025 knots: the sizes at which a validation may start to work in blocks) with
/// one tie / swapped pair / NaN / (-0.0, +0.0) tie; chunk `k` covers 64 consecutive (length,
/// position) pairs, all chunks together every position of every length
const LONG_LENS: [usize; 4] = [512, 513, 768, 1025];
fn long_axis_chunks() -> u64 {
    (LONG_LENS.iter().map(|n| n - 1).sum::<usize>() as u64 + 63) / 64
}
fn case_long_axis(case: u64, k: u64, ev: &mut Ev) {
    let pairs: Vec<(usize, usize)> = LONG_LENS.iter().flat_map(|&n| (0..n - 1).map(move |p| (n, p))).collect();
    for &(n, p) in pairs.iter().skip(k as usize * 64).take(64) {
        for defect in 0..4 {
            let mut a: Vec<f64> = (0..n).map(|i| i as f64 * 0.5 - 3.0).collect();
            let dname = match defect {
                0 => { a[p + 1] = a[p]; "tie" }
                1 => { a.swap(p, p + 1); "swap" }
                2 => { a[p] = f64::NAN; "nan" }
                _ => {
                    for (i, v) in a.iter_mut().enumerate() {
                        *v = if i <= p { i as f64 - p as f64 } else { (i - p - 1) as f64 };
                    }
                    a[p] = -0.0;
                    "negzero-tie"
                }
            };
            let ax = Array1::from(a);
            let two = Array1::from(vec![0.0f64, 1.0]);
            for which in 0..3 {
                let h = RecHandle::new();
                let what = format!("Rec{}<2> axis {} of {n} knots, {dname} at {p}", if which == 0 { 1 } else { 2 }, ["x", "x", "y"][which]);
                ev.add("long_axis_rows", 1);
                ev.case(vh::rng::fnv(what.as_bytes()), true);
                let (built, replay) = match which {
                    0 => {
                        let spec = Spec1::new(ArrayD::<f64>::zeros(IxDyn(&[n])), Some(ax.clone()), Strat1::Rec { min: 2, h: h.clone() });
                        (build1(&spec, |r| match r { Ok(_) => Outcome::Ok(()), Err(o) => o }), J::obj().set("row", what.as_str()))
                    }
                    _ => {
                        let (shape, x, y) = if which == 1 { ([n, 2], ax.clone(), two.clone()) } else { ([2, n], two.clone(), ax.clone()) };
                        let spec = Spec2::new(ArrayD::<f64>::zeros(IxDyn(&shape)), Some(x), Some(y), Strat2::Rec { min: 2, h: h.clone() });
                        (build2(&spec, |r| match r { Ok(_) => Outcome::Ok(()), Err(o) => o }), J::obj().set("row", what.as_str()))
                    }
                };
                let builds = h.lock().builds.clone();
                if !check_build_rec::<f64>(ev, case, &what, &builds, 2, which != 0, &replay) {
                    return;
                }
                match &built {
                    Outcome::Panic(m) => {
                        ev.violation("C18:builder-panicked", &format!("{what}: {m}"), case, replay.clone());
                        return;
                    }
                    Outcome::Ok(()) => {
                        ev.violation("C18:user-build-got-unvalidated-input", &format!("{what}: interpolator built over an axis that is not strictly increasing"), case, replay.clone());
                        return;
                    }
                    _ => {}
                }
            }
        }
    }
}

fn multiset(mut v: Vec<u64>) -> Vec<u64> {
    v.sort_unstable();
    v
}

/// addresses / strides of the target that belongs to every query index of a buffer
fn expected_targets<T: Flt>(buf: &vh::ndarray::ArrayViewMutD<'_, T>, n_lead: usize) -> Vec<(usize, Vec<isize>)> {
    let lead: Vec<usize> = buf.shape()[..n_lead].to_vec();
    let total: usize = lead.iter().product();
    let mut out = Vec::with_capacity(total);
    for flat in 0..total {
        let mut idx = Vec::with_capacity(n_lead);
        let mut rem = flat;
        for d in (0..n_lead).rev() {
            idx.push(rem % lead[d]);
            rem /= lead[d];
        }
        idx.reverse();
        let mut v = buf.view();
        for i in idx {
            v = v.index_axis_move(Axis(0), i);
        }
        let ptr = if v.is_empty() { 0 } else { v.as_ptr() as usize };
        out.push((ptr, v.strides().to_vec()));
    }
    out
}

fn check_calls<T: Flt>(
    ev: &mut Ev,
    case: u64,
    what: &str,
    calls: &[CallRec],
    qx: &[T],
    qy: Option<&[T]>,
    lane_shape: &[usize],
    replay: &J,
) -> bool {
    ev.add("strategy_calls_checked", calls.len() as u64);
    if calls.len() != qx.len() {
        ev.violation("C18:call-count", &format!("{what}: {} queries but interp_into invoked {} times", qx.len(), calls.len()), case, replay.clone());
        return false;
    }
    let got: Vec<u64> = calls.iter().map(|c| c.x_bits).collect();
    if multiset(got.clone()) != multiset(bits_of(qx)) {
        ev.violation("C18:query-value-modified", &format!("{what}: x values seen by the strategy {:x?} differ from the caller's {:x?}", got, bits_of(qx)), case, replay.clone());
        return false;
    }
    if let Some(qy) = qy {
        // pairs must stay together
        let mut a: Vec<(u64, u64)> = calls.iter().map(|c| (c.x_bits, c.y_bits.unwrap_or(0))).collect();
        let mut b: Vec<(u64, u64)> = qx.iter().zip(qy).map(|(x, y)| (x.bits(), y.bits())).collect();
        a.sort_unstable();
        b.sort_unstable();
        if a != b {
            ev.violation("C18:query-value-modified", &format!("{what}: (x,y) pairs seen by the strategy differ from the caller's"), case, replay.clone());
            return false;
        }
    }
    for c in calls {
        if c.target_shape != lane_shape {
            ev.violation("C18:target-shape", &format!("{what}: target shape {:?}, expected {:?}", c.target_shape, lane_shape), case, replay.clone());
            return false;
        }
    }
    true
}

fn case_calls1<T: Elem>(case: u64, args: &Args, ev: &mut Ev) {
    let mut rng = Rng::derive(args.seed, "C18-c1", &[case]);
    let lane_shape = gen_lane_shape(&mut rng, 3, true);
    let lanes: usize = lane_shape.iter().product();
    let n = 3 + rng.below(4);
    let mut shape = vec![n];
    shape.extend(&lane_shape);
    let data = gen_data::<T>(&mut rng, &shape, DataClass::Dyadic, (0, 0));
    let cls = *rng.pick(&AxisClass::SMOOTH);
    let x: Vec<T> = gen_axis(&mut rng, n, cls, &AxisOpts::linear());
    let h = RecHandle::new();
    let use_default = rng.chance(0.3);
    let mut spec = Spec1::new(data.clone(), if use_default { None } else { Some(Array1::from(x.clone())) }, Strat1::Rec { min: 2, h: h.clone() });
    spec.dynamic = rng.chance(0.4);
    let axis = spec.axis();
    let replay = spec1_json(&spec);
    ev.case(vh::rng::fnv(format!("{:?}{}", shape, spec.dim_name()).as_bytes()) ^ case, true);
    ev.count("dim", spec.dim_name());
    ev.count("elem", T::NAME);
    build1(&spec, |r| {
        let Ok(interp) = r else { return };
        // accessors
        for i in 0..n {
            match interp.point(i) {
                Outcome::Ok((xv, dv)) => {
                    ev.add("index_point_checked", 1);
                    let row: Vec<u64> = data.index_axis(Axis(0), i).iter().map(|v| v.bits()).collect();
                    if xv.bits() != axis[i].bits() || bits_of_arr(&dv) != row || dv.shape() != lane_shape.as_slice() {
                        ev.violation("C18:index_point", &format!("index_point({i}) = ({xv:?}, {dv:?}) but axis[{i}] = {:?}", axis[i]), case, replay.clone());
                        return;
                    }
                }
                o => {
                    ev.violation("C18:index_point", &format!("index_point({i}) -> {}", o.detail()), case, replay.clone());
                    return;
                }
            }
        }
        let lo = axis[0];
        let hi = axis[n - 1];
        for q in [lo, hi, lo.down(), hi.up(), lo.up(), hi.down(), T::nan(), T::infinity(), T::neg_infinity(), rand_in(&mut rng, lo, hi)] {
            let want = !(q < lo) && !(q > hi) && q == q;
            ev.add("is_in_range_checked", 1);
            match interp.in_range(q) {
                Outcome::Ok(g) if g == want => {}
                o => {
                    ev.violation("C18:is_in_range", &format!("is_in_range({q:?}) = {:?}, closed-range test gives {want}", o.ok()), case, replay.clone());
                    return;
                }
            }
        }
        // queries through every entry point; values include out-of-range, NaN, inf: the
        // strategy must see them unmodified (range handling is the strategy's business)
        let pool: Vec<T> = vec![lo, hi, lo.down(), hi.up(), T::nan(), T::infinity(), T::of(-0.0), rand_in(&mut rng, lo, hi), rand_in(&mut rng, lo, hi), T::of(1.0e-30), T::max_value()];
        for &q in &pool {
            h.reset_calls();
            let o = interp.one(q);
            if !o.is_ok() {
                ev.violation("C18:interp-failed", &format!("interp({q:?}) -> {}", o.detail()), case, replay.clone());
                return;
            }
            if !check_calls(ev, case, &format!("interp({q:?})"), &h.take_calls(), &[q], None, &lane_shape, &replay) {
                return;
            }
            h.reset_calls();
            if interp.scalar(q).is_ok() && !check_calls(ev, case, &format!("interp_scalar({q:?})"), &h.take_calls(), &[q], None, &lane_shape, &replay) {
                return;
            }
            h.reset_calls();
            let mut buf = ArrayD::<T>::zeros(IxDyn(&lane_shape));
            let expect_ptr = if buf.is_empty() { 0 } else { buf.as_ptr() as usize };
            if interp.one_into(q, buf.view_mut()).is_ok() {
                let calls = h.take_calls();
                if !check_calls(ev, case, &format!("interp_into({q:?})"), &calls, &[q], None, &lane_shape, &replay) {
                    return;
                }
                if calls[0].target_ptr != expect_ptr {
                    ev.violation("C18:target-placement", "interp_into: target is not the caller's buffer", case, replay.clone());
                    return;
                }
            }
        }
        // a big batch: every element must reach the strategy exactly once
        if case % 8 == 2 {
            let size = *rng.pick(&[1025usize, 4097, 5003]);
            let vals: Vec<T> = (0..size).map(|i| T::of(i as f64 * 0.25)).collect();
            for (kind, shape) in [(QKind::S1, vec![size]), (QKind::Dyn, vec![size])] {
                let qa = Query::from_vec(vals.clone(), &shape, kind);
                h.reset_calls();
                if let Outcome::Ok(_) = interp.many(&qa) {
                    ev.add("big_batches", 1);
                    if !check_calls(ev, case, &format!("interp_array({}) big batch", qa.name()), &h.take_calls(), &vals, None, &lane_shape, &replay) {
                        return;
                    }
                }
            }
        }
        // batches with repeated query values: the strategy must be called for every element
        for (kind, shape) in [(QKind::S1, vec![6usize]), (QKind::Dyn, vec![6]), (QKind::S2, vec![2, 3])] {
            let a = T::of(0.5);
            let b = T::of(1.5);
            let vals = vec![a, b, b, b, a, a];
            let qa = Query::from_vec(vals.clone(), &shape, kind);
            h.reset_calls();
            match interp.many(&qa) {
                Outcome::Ok(_) => {
                    ev.add("repeated_value_batches", 1);
                    if !check_calls(ev, case, &format!("interp_array({}) with repeated values", qa.name()), &h.take_calls(), &vals, None, &lane_shape, &replay) {
                        return;
                    }
                }
                Outcome::Untypeable => continue,
                o => {
                    ev.violation("C18:interp_array-failed", &o.detail(), case, replay.clone());
                    return;
                }
            }
            for fail_at in 0..vals.len() {
                h.reset_calls();
                {
                    let mut st = h.lock();
                    st.fail_at = Some(fail_at);
                    st.fail_msg = inj_msg("injected at repeated value", fail_at);
                }
                let o = interp.many(&qa);
                h.lock().fail_at = None;
                ev.add("injected_interp_errors", 1);
                match &o {
                    Outcome::Err(k, msg) if k == "OutOfBounds" && *msg == inj_msg("injected at repeated value", fail_at) => {}
                    other => {
                        ev.violation(
                            "C18:interp-error-not-propagated",
                            &format!("interp_array({}) with repeated values: strategy failed at call {fail_at} but the caller got {}", qa.name(), other.detail()),
                            case,
                            replay.clone(),
                        );
                        return;
                    }
                }
            }
        }
        for kind in [QKind::S0, QKind::S1, QKind::S2, QKind::S3, QKind::S4, QKind::Dyn] {
            let rank = kind.static_rank().unwrap_or_else(|| 1 + rng.below(2));
            let mut dims = vec![2usize, 3, 1, 2];
            rng.shuffle(&mut dims);
            let qshape: Vec<usize> = dims.into_iter().take(rank).collect();
            let nq: usize = qshape.iter().product();
            // distinct values so that targets can be matched to queries
            let mut vals: Vec<T> = (0..nq).map(|i| T::of(i as f64 * 0.5 + 0.125)).collect();
            rng.shuffle(&mut vals);
            if nq > 2 {
                vals[0] = T::infinity();
                vals[1] = T::of(-7.5);
            }
            let qlay = vh::lay::Layout::random(&mut rng, qshape.len());
            ev.count("query_layout", qlay.class());
            let qa = Query::with_layout(&ArrayD::from_shape_vec(IxDyn(&qshape), vals.clone()).unwrap(), kind, &qlay);
            ev.count("query_kind", kind.name());
            h.reset_calls();
            match interp.many(&qa) {
                Outcome::Ok(_) => {
                    if !check_calls(ev, case, &format!("interp_array({})", qa.name()), &h.take_calls(), &vals, None, &lane_shape, &replay) {
                        return;
                    }
                }
                Outcome::Untypeable => continue,
                o => {
                    ev.violation("C18:interp_array-failed", &o.detail(), case, replay.clone());
                    return;
                }
            }
            // _into with a strided buffer: every target must be the sub-view of its query
            let mut want = qshape.clone();
            want.extend(&lane_shape);
            let lay = vh::lay::Layout::random(&mut rng, want.len());
            let mut m = vh::lay::Mat::blank(&want, &lay, |k| T::sentinel(k));
            let mut view = m.view_mut();
            let exp = expected_targets(&view, qshape.len());
            h.reset_calls();
            let o = interp.many_into(&qa, view.view_mut());
            match o {
                Outcome::Ok(()) => {
                    let calls = h.take_calls();
                    if !check_calls(ev, case, &format!("interp_array_into({})", qa.name()), &calls, &vals, None, &lane_shape, &replay) {
                        return;
                    }
                    for c in &calls {
                        let k = vals.iter().position(|v| v.bits() == c.x_bits).unwrap();
                        ev.add("target_placements_checked", 1);
                        if lanes > 0 && (c.target_ptr != exp[k].0 || c.target_strides != exp[k].1) {
                            ev.violation(
                                "C18:target-placement",
                                &format!("interp_array_into({}): the target handed out for query {k} (x={:?}) is not the sub-view buffer[{k}] (layout {})", qa.name(), vals[k], lay.class()),
                                case,
                                replay.clone(),
                            );
                            return;
                        }
                    }
                }
                Outcome::Untypeable => {}
                o => {
                    ev.violation("C18:interp_array_into-failed", &o.detail(), case, replay.clone());
                    return;
                }
            }
            // failure injected at every call index
            for fail_at in 0..nq {
                h.reset_calls();
                {
                    let mut st = h.lock();
                    st.fail_at = Some(fail_at);
                    st.fail_msg = inj_msg("injected failure", fail_at);
                }
                let o = interp.many(&qa);
                let calls_after = h.lock().calls.len();
                h.lock().fail_at = None;
                ev.add("injected_interp_errors", 1);
                ev.count("calls_after_failure", if calls_after > fail_at + 1 { "continued" } else { "stopped" });
                match &o {
                    Outcome::Err(k, msg) if k == "OutOfBounds" && *msg == inj_msg("injected failure", fail_at) => {}
                    other => {
                        ev.violation(
                            "C18:interp-error-not-propagated",
                            &format!("interp_array({}): strategy failed at call {fail_at} but the caller got {}", qa.name(), other.detail()),
                            case,
                            replay.clone(),
                        );
                        return;
                    }
                }
            }
        }
    });
}

fn case_calls2<T: Elem>(case: u64, args: &Args, ev: &mut Ev) {
    let mut rng = Rng::derive(args.seed, "C18-c2", &[case]);
    let lane_shape = gen_lane_shape(&mut rng, 2, true);
    let (nx, ny) = (2 + rng.below(3), 2 + rng.below(3));
    let mut shape = vec![nx, ny];
    shape.extend(&lane_shape);
    let data = gen_data::<T>(&mut rng, &shape, DataClass::Dyadic, (0, 0));
    let h = RecHandle::new();
    let x: Vec<T> = gen_axis(&mut rng, nx, AxisClass::DyadicRandom, &AxisOpts::linear());
    let y: Vec<T> = gen_axis(&mut rng, ny, AxisClass::FullMantissa, &AxisOpts::linear());
    let mut spec = Spec2::new(data.clone(), Some(Array1::from(x.clone())), Some(Array1::from(y.clone())), Strat2::Rec { min: 2, h: h.clone() });
    spec.dynamic = rng.chance(0.4);
    let replay = spec2_json(&spec);
    ev.case(vh::rng::fnv(format!("2d{:?}{}", shape, spec.dim_name()).as_bytes()) ^ case, true);
    ev.count("dim", format!("2d-{}", spec.dim_name()));
    ev.count("elem", T::NAME);
    build2(&spec, |r| {
        let Ok(interp) = r else { return };
        for i in 0..nx {
            for j in 0..ny {
                match interp.point(i, j) {
                    Outcome::Ok((xv, yv, dv)) => {
                        ev.add("index_point_checked", 1);
                        let row: Vec<u64> = data.index_axis(Axis(0), i).index_axis(Axis(0), j).iter().map(|v| v.bits()).collect();
                        if xv.bits() != x[i].bits() || yv.bits() != y[j].bits() || bits_of_arr(&dv) != row {
                            ev.violation("C18:index_point", &format!("2-D index_point({i},{j}) wrong"), case, replay.clone());
                            return;
                        }
                    }
                    o => {
                        ev.violation("C18:index_point", &o.detail(), case, replay.clone());
                        return;
                    }
                }
            }
        }
        for (ax, is_x) in [(&x, true), (&y, false)] {
            let (lo, hi) = (ax[0], ax[ax.len() - 1]);
            for q in [lo, hi, lo.down(), hi.up(), T::nan(), T::infinity()] {
                let want = !(q < lo) && !(q > hi) && q == q;
                let got = if is_x { interp.in_range_x(q) } else { interp.in_range_y(q) };
                ev.add("is_in_range_checked", 1);
                if got.as_ok() != Some(&want) {
                    ev.violation("C18:is_in_range", &format!("2-D is_in_{}_range({q:?}) != {want}", if is_x { "x" } else { "y" }), case, replay.clone());
                    return;
                }
            }
        }
        for (kind, shape) in [(QKind::S1, vec![5usize]), (QKind::S2, vec![5, 1])] {
            let vx = vec![T::of(1.0), T::of(2.0), T::of(2.0), T::of(2.0), T::of(1.0)];
            let vy = vec![T::of(3.0), T::of(3.0), T::of(3.0), T::of(4.0), T::of(3.0)];
            let qx = Query::from_vec(vx.clone(), &shape, kind);
            let qy = Query::from_vec(vy.clone(), &shape, kind);
            h.reset_calls();
            if let Outcome::Ok(_) = interp.many(&qx, &qy) {
                ev.add("repeated_value_batches", 1);
                if !check_calls(ev, case, &format!("2-D interp_array({}) with repeated values", qx.name()), &h.take_calls(), &vx, Some(&vy), &lane_shape, &replay) {
                    return;
                }
            }
        }
        for kind in [QKind::S0, QKind::S1, QKind::S2, QKind::S3, QKind::Dyn] {
            let rank = kind.static_rank().unwrap_or(2);
            let mut dims = vec![2usize, 3, 1];
            rng.shuffle(&mut dims);
            let qshape: Vec<usize> = dims.into_iter().take(rank).collect();
            let nq: usize = qshape.iter().product();
            let mut vx: Vec<T> = (0..nq).map(|i| T::of(i as f64 * 0.5 - 1.0)).collect();
            let vy: Vec<T> = (0..nq).map(|i| T::of(100.0 - i as f64 * 0.25)).collect();
            rng.shuffle(&mut vx);
            if nq > 1 {
                vx[0] = T::nan();
            }
            let lx = vh::lay::Layout::random(&mut rng, qshape.len());
            let ly = vh::lay::Layout::random(&mut rng, qshape.len());
            ev.count("query_layout", ly.class());
            let qx = Query::with_layout(&ArrayD::from_shape_vec(IxDyn(&qshape), vx.clone()).unwrap(), kind, &lx);
            let qy = Query::with_layout(&ArrayD::from_shape_vec(IxDyn(&qshape), vy.clone()).unwrap(), kind, &ly);
            ev.count("query_kind", format!("2d-{}", kind.name()));
            h.reset_calls();
            match interp.many(&qx, &qy) {
                Outcome::Ok(_) => {
                    if !check_calls(ev, case, &format!("2-D interp_array({})", qx.name()), &h.take_calls(), &vx, Some(&vy), &lane_shape, &replay) {
                        return;
                    }
                }
                Outcome::Untypeable => continue,
                o => {
                    ev.violation("C18:interp_array-failed", &o.detail(), case, replay.clone());
                    return;
                }
            }
            for fail_at in 0..nq {
                h.reset_calls();
                {
                    let mut st = h.lock();
                    st.fail_at = Some(fail_at);
                    st.fail_msg = inj_msg("2-D injected", fail_at);
                }
                let o = interp.many(&qx, &qy);
                h.lock().fail_at = None;
                ev.add("injected_interp_errors", 1);
                match &o {
                    Outcome::Err(k, msg) if k == "OutOfBounds" && *msg == inj_msg("2-D injected", fail_at) => {}
                    other => {
                        ev.violation("C18:interp-error-not-propagated", &format!("2-D interp_array: caller got {}", other.detail()), case, replay.clone());
                        return;
                    }
                }
            }
        }
        // single-query entry points
        for _ in 0..4 {
            let (qx, qy) = (T::of(rng.f01() * 100.0 - 50.0), T::of(rng.f01()));
            h.reset_calls();
            if interp.one(qx, qy).is_ok() && !check_calls(ev, case, "2-D interp", &h.take_calls(), &[qx], Some(&[qy]), &lane_shape, &replay) {
                return;
            }
            h.reset_calls();
            if interp.scalar(qx, qy).is_ok() && !check_calls(ev, case, "2-D interp_scalar", &h.take_calls(), &[qx], Some(&[qy]), &lane_shape, &replay) {
                return;
            }
        }
    });
}

/// the text of an injected strategy error: mostly a recognisable marker, but also the texts a
/// terse strategy really returns - empty, blank, multi-line
fn inj_msg(tag: &str, k: usize) -> String {
    match k % 5 {
        1 => String::new(),
        3 => "  ".to_string(),
        4 => format!("{tag}\nsecond line #{k}"),
        _ => format!("{tag} #{k} \"quoted\""),
    }
}

fn main() {
    let args = Args::parse("C18");
    let n = args.budget(240, 30000);
    // (not in the heavily scaled-down interpreter legs: the sweep is about validation, not memory safety)
    let chunks = if args.scale < 0.05 { 0 } else { ((long_axis_chunks() as f64 * args.scale).ceil() as u64).clamp(1, long_axis_chunks()) };
    let ev = run_sharded(&args, n + chunks, |case, ev, _log| {
        if case >= n {
            // spread the covered chunks over the whole range when the leg is scaled down
            let k = (case - n) * long_axis_chunks() / chunks;
            return case_long_axis(case, k, ev);
        }
        let f32_ = case % 7 == 6;
        match (case % 4, f32_) {
            (0, _) => case_builder1::<f64>(case, &args, ev),
            (1, _) => case_builder2::<f64>(case, &args, ev),
            (2, false) => case_calls1::<f64>(case, &args, ev),
            (2, true) => case_calls1::<f32>(case, &args, ev),
            (_, false) => case_calls2::<f64>(case, &args, ev),
            (_, true) => case_calls2::<f32>(case, &args, ev),
        }
    });
    ev.finish(
        &args,
        "recording / failing user strategies for Interp1D and Interp2D with declared minimum 0..4 \
         (static Ix1 / Ix2 and dynamic data); builder rows: data length 0..min+2 x axis variants \
         (default, valid, short, long, tie, swap, decreasing, NaN) incl. injected build errors of every \
         kind; call checks: every entry point and query type Ix0..Ix4 / IxDyn with in-range, \
         out-of-range, NaN, inf, -0 and MAX queries, target shape and (for *_into with random buffer \
         layouts) target address + strides per query, index_point / is_in_range, failure injected at \
         every call index of every batch. Every case is non-trivial; distinct by row / shape hash.",
        J::obj(),
    );
}
