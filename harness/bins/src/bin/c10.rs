//! C10 - build() accepts exactly the valid inputs and reports the rest as BuilderError.
//! In-process: an independent validator computes the set of violated requirements; the
//! full decision table is enumerated (not sampled). Outcomes: Ok iff the set is empty,
//! Err(kind) with kind belonging to a violated requirement otherwise, never a panic.

use std::collections::BTreeSet;
use vh::events::*;
use vh::ndarray::{Array1, ArrayD, IxDyn};
use vh::report::*;
use vh::spec::*;
use vh::*;

#[derive(Clone, Debug)]
struct AxisPat {
    name: String,
    vals: Vec<f64>,
}

fn axis_patterns(m: usize, full: bool) -> Vec<AxisPat> {
    let base: Vec<f64> = (0..m).map(|i| i as f64 * 1.5 + 0.25).collect();
    let mut out = vec![AxisPat { name: "increasing".into(), vals: base.clone() }];
    if m >= 2 {
        let mut dec = base.clone();
        dec.reverse();
        out.push(AxisPat { name: "decreasing".into(), vals: dec });
    }
    let positions = |n: usize| -> Vec<usize> {
        if full || n <= 2 {
            (0..n).collect()
        } else {
            vec![0, n / 2, n - 1]
        }
    };
    if m >= 2 {
        for p in positions(m - 1) {
            let mut v = base.clone();
            v[p + 1] = v[p];
            out.push(AxisPat { name: format!("tie@{p}"), vals: v });
            let mut v = base.clone();
            v.swap(p, p + 1);
            out.push(AxisPat { name: format!("swap@{p}"), vals: v });
        }
    }
    if m >= 2 {
        // a tie between the two zeros: -0.0 and +0.0 compare equal although their bits differ
        for p in positions(m - 1) {
            for (name, a, b) in [("negzero-tie", -0.0f64, 0.0f64), ("poszero-tie", 0.0, -0.0)] {
                let mut v: Vec<f64> = (0..m).map(|i| if i <= p { (i as f64 - p as f64) * 1.5 } else { (i - p - 1) as f64 * 1.5 }).collect();
                v[p] = a;
                v[p + 1] = b;
                out.push(AxisPat { name: format!("{name}@{p}"), vals: v });
            }
        }
    }
    for p in positions(m) {
        let mut v = base.clone();
        v[p] = f64::NAN;
        out.push(AxisPat { name: format!("nan@{p}"), vals: v });
    }
    if m >= 1 {
        let mut v = base.clone();
        v[m - 1] = f64::INFINITY;
        out.push(AxisPat { name: "inf@last".into(), vals: v });
    }
    out
}

fn strictly_increasing(v: &[f64]) -> bool {
    v.len() >= 2 && v.windows(2).all(|w| w[0] < w[1])
}

/// the harness's own statement of which requirements are violated, mapped to the error
/// kinds that may report them
#[derive(Default, Debug)]
struct Violated {
    reasons: Vec<String>,
    kinds: BTreeSet<&'static str>,
}

impl Violated {
    fn add(&mut self, reason: &str, kinds: &[&'static str]) {
        self.reasons.push(reason.to_string());
        self.kinds.extend(kinds.iter().copied());
    }
}

struct Mon<'a> {
    ev: &'a mut Ev,
    case: u64,
}

impl Mon<'_> {
    fn judge(&mut self, what: &str, v: &Violated, got: &Outcome<()>, replay: &J) {
        self.ev.add("builds", 1);
        let cls = if v.reasons.is_empty() { "valid".to_string() } else { format!("{}-violations", v.reasons.len().min(3)) };
        self.ev.count("table_rows", &cls);
        for r in &v.reasons {
            self.ev.count("violated_requirement", r.split(':').next().unwrap());
        }
        let mut bad: Option<(&str, String)> = None;
        match got {
            Outcome::Panic(m) => bad = Some(("C10:panic", format!("panicked: {m}"))),
            Outcome::Ok(()) => {
                if !v.reasons.is_empty() {
                    bad = Some(("C10:invalid-input-accepted", format!("built although {:?}", v.reasons)));
                }
            }
            Outcome::Err(k, m) => {
                self.ev.count("error_kind", k);
                if v.reasons.is_empty() {
                    bad = Some(("C10:valid-input-rejected", format!("valid input rejected with {k}: {m}")));
                } else if !v.kinds.contains(k.as_str()) {
                    bad = Some((
                        "C10:error-kind-matches-no-violated-requirement",
                        format!("got {k} ({m}) but violated requirements are {:?} (kinds {:?})", v.reasons, v.kinds),
                    ));
                }
            }
            Outcome::Untypeable => {
                self.ev.add("untypeable", 1);
                return;
            }
        }
        if let Some((sig, msg)) = bad {
            self.ev.violation(sig, &format!("{what}: {msg}"), self.case, replay.clone().set("row", what));
        }
    }
}

fn mk_data(shape: &[usize], periodic_mode: u8) -> ArrayD<f64> {
    // distinct smooth-ish values; periodic_mode: 0 none, 1 ends equal, 2 unequal in the last lane, 3 NaN at an end
    let n: usize = shape.iter().product();
    let rows = shape.first().copied().unwrap_or(1).max(1);
    let lanes = (n / rows).max(1);
    let mut v: Vec<f64> = (0..n).map(|i| ((i * 7) % 11) as f64 * 0.5 - 1.0).collect();
    if periodic_mode >= 1 && n > 0 && shape.first().copied().unwrap_or(0) >= 2 {
        for l in 0..lanes {
            v[(rows - 1) * lanes + l] = v[l];
        }
        if periodic_mode == 2 {
            v[(rows - 1) * lanes + lanes - 1] += 0.125;
        }
        if periodic_mode == 3 {
            v[lanes - 1] = f64::NAN;
            v[(rows - 1) * lanes + lanes - 1] = f64::NAN;
        }
        // 4: the last lane's end value differs from its first value by one ulp
        if periodic_mode == 4 {
            let k = (rows - 1) * lanes + lanes - 1;
            v[k] = f64::from_bits(v[k].to_bits() + 1);
            if v[k] == v[lanes - 1] {
                v[k] = 5e-324;
            }
        }
        // 5: data in a tiny unit (2^-80); the ends of the last lane differ by 1/8 of that unit
        if periodic_mode == 5 {
            v[(rows - 1) * lanes + lanes - 1] += 0.125;
            for a in v.iter_mut() {
                *a *= 2f64.powi(-80);
            }
        }
        // 6: equal ends that differ only in the sign of zero (+0.0 and -0.0 are equal)
        if periodic_mode == 6 {
            v[lanes - 1] = 0.0;
            v[(rows - 1) * lanes + lanes - 1] = -0.0;
        }
    }
    ArrayD::from_shape_vec(IxDyn(shape), v).unwrap()
}

#[derive(Clone, Debug)]
enum St {
    Linear,
    Spline(&'static str),   // whole-set boundary name
    Periodic(u8),           // periodic_mode of the data
    Individual(&'static str), // ok / wrong-leading / wrong-trailing / wrong-rank
}

fn table_1d(args: &Args, ev: &mut Ev, full: bool) {
    let trailings: [&[usize]; 3] = [&[], &[2], &[2, 3]];
    let strategies = vec![
        St::Linear,
        St::Spline("NotAKnot"),
        St::Spline("Natural"),
        St::Spline("Clamped"),
        St::Periodic(1),
        St::Periodic(2),
        St::Periodic(3),
        St::Periodic(4),
        St::Periodic(5),
        St::Periodic(6),
        St::Individual("ok"),
        St::Individual("wrong-leading"),
        St::Individual("wrong-trailing"),
        St::Individual("wrong-rank"),
        St::Individual("trailing-permuted"),
        St::Individual("trailing-merged"),
    ];
    let mut case: u64 = 0;
    for st in &strategies {
        let min = if matches!(st, St::Linear) { 2 } else { 3 };
        for dynamic in [false, true] {
            // rank 0 .. 3 (rank 0 static: constructor only)
            for rank in 0..=3usize {
                for len in 0..=min + 2 {
                    let mut shape: Vec<usize> = Vec::new();
                    if rank >= 1 {
                        shape.push(len);
                        shape.extend(trailings[rank - 1]);
                    } else if len != 0 {
                        continue;
                    }
                    let pmode = if let St::Periodic(m) = st { *m } else { 0 };
                    let data = mk_data(&shape, pmode);
                    // axes: default, or explicit with length len-1, len, len+1 and every order pattern
                    let mut axes: Vec<(String, Option<Vec<f64>>)> = vec![("default".into(), None)];
                    let dlen = shape.first().copied().unwrap_or(0);
                    for m in [dlen.wrapping_sub(1), dlen, dlen + 1] {
                        if m == usize::MAX {
                            continue;
                        }
                        for p in axis_patterns(m, full) {
                            axes.push((format!("len{}:{}", m as i64 - dlen as i64, p.name), Some(p.vals)));
                        }
                    }
                    for (aname, ax) in &axes {
                        case += 1;
                        if let Some(only) = args.only {
                            if only != case {
                                continue;
                            }
                        }
                        let lane_shape: Vec<usize> = shape.iter().skip(1).copied().collect();
                        let n_lanes: usize = lane_shape.iter().product();
                        // ---- independent validation
                        let mut v = Violated::default();
                        if rank < 1 {
                            v.add("rank: data has no axis to interpolate along", &["ShapeError", "NotEnoughData"]);
                        }
                        if dlen < min {
                            v.add("min-points: fewer points than the strategy needs", &["NotEnoughData"]);
                        }
                        let axis_vals: Vec<f64> = match ax {
                            Some(a) => a.clone(),
                            None => (0..dlen).map(|i| i as f64).collect(),
                        };
                        if axis_vals.len() != dlen {
                            v.add("axis-length: axis and data length differ", &["ShapeError"]);
                        }
                        if !strictly_increasing(&axis_vals) {
                            v.add("axis-order: axis not strictly increasing", &["Monotonic"]);
                        }
                        let boundary: Bound<f64> = match st {
                            St::Linear => Bound::NotAKnot,
                            St::Spline("NotAKnot") => Bound::NotAKnot,
                            St::Spline("Natural") => Bound::Natural,
                            St::Spline(_) => Bound::Clamped,
                            St::Periodic(m) => {
                                if (2..=5).contains(m) && rank >= 1 && dlen >= 2 && n_lanes > 0 {
                                    v.add("periodic-ends: first and last rows differ", &["ValueError"]);
                                }
                                Bound::Periodic
                            }
                            St::Individual(kind) => {
                                let mut bshape: Vec<usize> = vec![1];
                                bshape.extend(&lane_shape);
                                match *kind {
                                    "ok" => {}
                                    "wrong-leading" => bshape[0] = 2,
                                    "wrong-trailing" => {
                                        if bshape.len() >= 2 {
                                            let l = bshape.len() - 1;
                                            bshape[l] += 1;
                                        } else {
                                            bshape[0] = 3;
                                        }
                                    }
                                    // same number of elements, wrong shape
                                    "trailing-permuted" => {
                                        let l = bshape.len();
                                        if l >= 3 {
                                            bshape.swap(l - 1, l - 2);
                                        }
                                    }
                                    "trailing-merged" => {
                                        let l = bshape.len();
                                        if l >= 3 {
                                            bshape[l - 2] *= bshape[l - 1];
                                            bshape[l - 1] = 1;
                                        }
                                    }
                                    _ => bshape.push(1),
                                }
                                if rank == 0 {
                                    bshape = match *kind {
                                        "ok" => vec![],
                                        _ => vec![1],
                                    };
                                }
                                let expected: Vec<usize> = if rank == 0 { vec![] } else { let mut e = vec![1]; e.extend(&lane_shape); e };
                                if bshape != expected {
                                    v.add("boundary-shape: per-lane boundary array has the wrong shape", &["ShapeError"]);
                                }
                                let cnt: usize = bshape.iter().product();
                                let rows: Vec<RB<f64>> = (0..cnt)
                                    .map(|i| match i % 3 {
                                        0 => RB::Natural,
                                        1 => RB::Mixed(SB::FirstDeriv(0.5), SB::NotAKnot),
                                        _ => RB::Clamped,
                                    })
                                    .collect();
                                Bound::Individual(ArrayD::from_shape_vec(IxDyn(&bshape), rows).unwrap())
                            }
                        };
                        let strat = match st {
                            St::Linear => Strat1::Linear { extrapolate: false },
                            _ => Strat1::Spline { extrapolate: false, boundary },
                        };
                        let mut spec = Spec1::new(data.clone(), ax.as_ref().map(|a| Array1::from(a.clone())), strat);
                        spec.dynamic = dynamic;
                        // validity must not depend on how the data are stored
                        match case % 4 {
                            1 => spec.data_lay = vh::lay::Layout::f(shape.len()),
                            2 => {
                                spec.data_lay = vh::lay::Layout::reversed(shape.len());
                                spec.x_lay = vh::lay::Layout::reversed(1);
                            }
                            3 => {
                                let mut r = Rng::derive(7, "C10-layout", &[case]);
                                spec.data_lay = vh::lay::Layout::random(&mut r, shape.len());
                                spec.x_lay = vh::lay::Layout::random(&mut r, 1);
                            }
                            _ => {}
                        }
                        ev.count("data_layout", spec.data_lay.class());
                        let what = format!(
                            "1-D {:?} {} data shape {:?} axis {}",
                            st,
                            if dynamic { "dynamic" } else { "static" },
                            shape,
                            aname
                        );
                        let h = vh::rng::fnv(what.as_bytes());
                        ev.case(h, v.reasons.len() != 1);
                        ev.count("strategy", format!("{:?}", st));
                        ev.count("rank", format!("{}{}", if dynamic { "dyn" } else { "static" }, rank));
                        let replay = spec1_json(&spec);
                        let mut mon = Mon { ev, case };
                        let mut outcome: Option<Outcome<()>> = None;
                        let mut ctor_only = false;
                        f64::with1(&spec, &mut |b| match b {
                            Built1::Interp(_) => outcome = Some(Outcome::Ok(())),
                            Built1::Fail(o) => outcome = Some(o),
                            Built1::CtorOnly(o) => {
                                ctor_only = true;
                                outcome = Some(o)
                            }
                        });
                        let got = outcome.unwrap();
                        if ctor_only {
                            // statically rank-deficient data can only be constructed: must not panic
                            mon.ev.add("constructor_only_rows", 1);
                            if let Outcome::Panic(m) = &got {
                                mon.ev.violation("C10:panic", &format!("{what}: constructor panicked: {m}"), case, replay.clone());
                            }
                            continue;
                        }
                        mon.judge(&what, &v, &got, &replay);
                        if case % 997 == 0 {
                            mon.ev.sample(|| {
                                J::obj()
                                    .set("row", what.as_str())
                                    .set("violated", J::arr(v.reasons.clone()))
                                    .set("outcome", got.detail())
                            });
                        }
                    }
                }
            }
        }
    }
    ev.add("rows_1d", case);
}

fn table_2d(args: &Args, ev: &mut Ev, full: bool) {
    let mut case: u64 = 1_000_000;
    let trailings: [&[usize]; 2] = [&[], &[2]];
    for dynamic in [false, true] {
        for rank in 0..=3usize {
            for a in 0..=4usize {
                for b in 0..=4usize {
                    let shape: Vec<usize> = match rank {
                        0 => {
                            if a != 0 || b != 0 {
                                continue;
                            }
                            vec![]
                        }
                        1 => {
                            if b != 0 {
                                continue;
                            }
                            vec![a]
                        }
                        r => {
                            let mut s = vec![a, b];
                            s.extend(trailings[r - 2]);
                            s
                        }
                    };
                    let data = mk_data(&shape, 0);
                    let d0 = shape.first().copied().unwrap_or(0);
                    let d1 = shape.get(1).copied().unwrap_or(0);
                    let mk_axes = |dlen: usize| -> Vec<(String, Option<Vec<f64>>)> {
                        let mut axes: Vec<(String, Option<Vec<f64>>)> = vec![("default".into(), None)];
                        for m in [dlen.wrapping_sub(1), dlen, dlen + 1] {
                            if m == usize::MAX {
                                continue;
                            }
                            let pats = axis_patterns(m, false);
                            let take = if full { pats.len() } else { pats.len().min(5) };
                            for p in pats.into_iter().take(take) {
                                axes.push((format!("len{}:{}", m as i64 - dlen as i64, p.name), Some(p.vals)));
                            }
                        }
                        axes
                    };
                    let xs = mk_axes(d0);
                    let ys = mk_axes(d1);
                    for (xn, xa) in &xs {
                        for (yn, ya) in &ys {
                            case += 1;
                            if let Some(only) = args.only {
                                if only != case {
                                    continue;
                                }
                            }
                            let mut v = Violated::default();
                            if rank < 2 {
                                v.add("rank: data has fewer than 2 axes", &["ShapeError", "NotEnoughData"]);
                            }
                            if d0 < 2 {
                                v.add("min-points: axis 0 has fewer than 2 points", &["NotEnoughData"]);
                            }
                            if d1 < 2 {
                                v.add("min-points: axis 1 has fewer than 2 points", &["NotEnoughData"]);
                            }
                            let xv: Vec<f64> = xa.clone().unwrap_or_else(|| (0..d0).map(|i| i as f64).collect());
                            let yv: Vec<f64> = ya.clone().unwrap_or_else(|| (0..d1).map(|i| i as f64).collect());
                            if xv.len() != d0 {
                                v.add("axis-length: x axis and data axis 0 differ", &["ShapeError"]);
                            }
                            if yv.len() != d1 {
                                v.add("axis-length: y axis and data axis 1 differ", &["ShapeError"]);
                            }
                            if !strictly_increasing(&xv) {
                                v.add("axis-order: x not strictly increasing", &["Monotonic"]);
                            }
                            if !strictly_increasing(&yv) {
                                v.add("axis-order: y not strictly increasing", &["Monotonic"]);
                            }
                            let mut spec = Spec2::new(
                                data.clone(),
                                xa.as_ref().map(|a| Array1::from(a.clone())),
                                ya.as_ref().map(|a| Array1::from(a.clone())),
                                Strat2::Bilinear { extrapolate: false },
                            );
                            spec.dynamic = dynamic;
                            if case % 3 == 1 {
                                spec.data_lay = vh::lay::Layout::f(shape.len());
                            } else if case % 3 == 2 {
                                let mut r = Rng::derive(7, "C10-layout", &[case]);
                                spec.data_lay = vh::lay::Layout::random(&mut r, shape.len());
                                spec.y_lay = vh::lay::Layout::random(&mut r, 1);
                            }
                            let what = format!(
                                "2-D Bilinear {} data shape {:?} x {} y {}",
                                if dynamic { "dynamic" } else { "static" },
                                shape,
                                xn,
                                yn
                            );
                            ev.case(vh::rng::fnv(what.as_bytes()), v.reasons.len() != 1);
                            ev.count("strategy", "Bilinear");
                            ev.count("rank", format!("2d-{}{}", if dynamic { "dyn" } else { "static" }, rank));
                            let replay = spec2_json(&spec);
                            let mut outcome: Option<Outcome<()>> = None;
                            let mut ctor_only = false;
                            f64::with2(&spec, &mut |b| match b {
                                Built2::Interp(_) => outcome = Some(Outcome::Ok(())),
                                Built2::Fail(o) => outcome = Some(o),
                                Built2::CtorOnly(o) => {
                                    ctor_only = true;
                                    outcome = Some(o)
                                }
                            });
                            let got = outcome.unwrap();
                            let mut mon = Mon { ev, case };
                            if ctor_only {
                                mon.ev.add("constructor_only_rows", 1);
                                if let Outcome::Panic(m) = &got {
                                    mon.ev.violation("C10:panic", &format!("{what}: constructor panicked: {m}"), case, replay.clone());
                                }
                                continue;
                            }
                            mon.judge(&what, &v, &got, &replay);
                        }
                    }
                }
            }
        }
    }
    // x and y as two views of one table (same first element, strides 1 and 2): validity must be
    // judged per axis, whatever the aliasing
    let mut rng = Rng::derive(11, "C10-alias", &[0]);
    for k in 0..(if full { 3000 } else { 400 }) {
        case += 1;
        if let Some(only) = args.only {
            if only != case {
                continue;
            }
        }
        let (nx, ny) = (2 + rng.below(5), 2 + rng.below(4));
        let table = vh::cases::gen_alias_table::<f64>(&mut rng, nx, ny, true);
        let rank3 = k % 2 == 0;
        let shape: Vec<usize> = if rank3 { vec![nx, ny, 2] } else { vec![nx, ny] };
        let mut spec = Spec2::new(mk_data(&shape, 0), None, None, Strat2::Bilinear { extrapolate: false })
            .aliased_axes(Array1::from(table.clone()), nx, ny);
        spec.dynamic = !rank3 || k % 4 == 0;
        let mut v = Violated::default();
        if !strictly_increasing(&spec.axis_x()) {
            v.add("axis-order: x not strictly increasing", &["Monotonic"]);
        }
        if !strictly_increasing(&spec.axis_y()) {
            v.add("axis-order: y not strictly increasing", &["Monotonic"]);
        }
        let what = format!("2-D Bilinear aliased axes: table {:?}, x = table[..{nx}], y = table[..;2] ({ny} values)", table);
        ev.case(vh::rng::fnv(what.as_bytes()), true);
        ev.count("strategy", "Bilinear");
        ev.count("rank", "2d-aliased-axes");
        let replay = spec2_json(&spec).set("alias_table", J::arr(table.iter().map(|t| J::Num(*t)).collect::<Vec<_>>()));
        let mut outcome: Option<Outcome<()>> = None;
        f64::with2(&spec, &mut |b| match b {
            Built2::Interp(_) => outcome = Some(Outcome::Ok(())),
            Built2::Fail(o) => outcome = Some(o),
            Built2::CtorOnly(o) => outcome = Some(o),
        });
        Mon { ev, case }.judge(&what, &v, &outcome.unwrap(), &replay);
        ev.add("aliased_axes_rows", 1);
    }
    ev.add("rows_2d", case - 1_000_000);
}

fn main() {
    let args = Args::parse("C10");
    let full = args.thorough();
    let mut ev = Ev::new();
    if args.only.map_or(true, |c| c < 1_000_000) {
        table_1d(&args, &mut ev, full);
    }
    if args.only.map_or(true, |c| c >= 1_000_000) {
        table_2d(&args, &mut ev, full);
    }
    // long axes (the sizes at which a validation may start to work block-wise) with a single
    // tie / swapped pair / NaN / signed-zero tie at EVERY position, 1-D and as x / y of a 2-D grid
    if args.only.map_or(true, |c| c >= 3_000_000) {
        let mut case = 3_000_000u64;
        for &n in &[512usize, 513, 768, 1025] {
            let good: Vec<f64> = (0..n).map(|i| i as f64 - 7.0).collect();
            let d1 = ArrayD::<f64>::zeros(IxDyn(&[n]));
            let dx = ArrayD::<f64>::zeros(IxDyn(&[n, 2]));
            let dy = ArrayD::<f64>::zeros(IxDyn(&[2, n]));
            let two = Array1::from(vec![0.0f64, 1.0]);
            for pos in (0..n - 1).map(Some).chain(std::iter::once(None)) {
                for defect in 0..4 {
                    let mut a = good.clone();
                    let what = match (pos, defect) {
                        (None, 0) => "valid".to_string(),
                        (None, _) => continue,
                        (Some(p), 0) => { a[p + 1] = a[p]; format!("tie@{p}") }
                        (Some(p), 1) => { a.swap(p, p + 1); format!("swap@{p}") }
                        (Some(p), 2) => { a[p] = f64::NAN; format!("nan@{p}") }
                        (Some(p), _) => {
                            // shift so that the pair is (-0.0, +0.0)
                            for (i, v) in a.iter_mut().enumerate() {
                                *v = if i <= p { i as f64 - p as f64 } else { (i - p - 1) as f64 };
                            }
                            a[p] = -0.0;
                            format!("negzero-tie@{p}")
                        }
                    };
                    let valid = strictly_increasing(&a);
                    let ax = Array1::from(a);
                    for which in 0..3 {
                        case += 1;
                        if args.only.map_or(false, |c| c != case) {
                            continue;
                        }
                        let mut v = Violated::default();
                        let (label, got) = match which {
                            0 => {
                                if !valid { v.add("axis-order: axis not strictly increasing", &["Monotonic"]); }
                                let spec = Spec1::new(d1.clone(), Some(ax.clone()), Strat1::Linear { extrapolate: false });
                                ("1-D Linear axis", build1(&spec, |r| match r { Ok(_) => Outcome::Ok(()), Err(o) => o }))
                            }
                            _ => {
                                if !valid { v.add(if which == 1 { "axis-order: x not strictly increasing" } else { "axis-order: y not strictly increasing" }, &["Monotonic"]); }
                                let spec = if which == 1 {
                                    Spec2::new(dx.clone(), Some(ax.clone()), Some(two.clone()), Strat2::Bilinear { extrapolate: false })
                                } else {
                                    Spec2::new(dy.clone(), Some(two.clone()), Some(ax.clone()), Strat2::Bilinear { extrapolate: false })
                                };
                                let mut outcome: Option<Outcome<()>> = None;
                                f64::with2(&spec, &mut |b| match b {
                                    Built2::Interp(_) => outcome = Some(Outcome::Ok(())),
                                    Built2::Fail(o) => outcome = Some(o),
                                    Built2::CtorOnly(o) => outcome = Some(o),
                                });
                                (if which == 1 { "2-D Bilinear x axis" } else { "2-D Bilinear y axis" }, outcome.unwrap())
                            }
                        };
                        let what = format!("{label} of {n} knots: {what}");
                        ev.case(vh::rng::fnv(what.as_bytes()), true);
                        ev.add("long_axis_rows", 1);
                        Mon { ev: &mut ev, case }.judge(&what, &v, &got, &J::obj().set("n", n).set("axis", what.as_str()));
                    }
                }
            }
        }
    }
    // a small f32 slice of the same table shape (element type must not matter)
    {
        for (k, len) in [0usize, 1, 2, 3, 4].iter().enumerate() {
            let data: ArrayD<f32> = ArrayD::from_shape_vec(IxDyn(&[*len]), (0..*len).map(|i| i as f32).collect()).unwrap();
            for spl in [false, true] {
                let min = if spl { 3 } else { 2 };
                let strat = if spl { Strat1::Spline { extrapolate: false, boundary: Bound::NotAKnot } } else { Strat1::Linear { extrapolate: false } };
                let spec = Spec1::new(data.clone(), None, strat);
                let got = build1(&spec, |r| match r {
                    Ok(_) => Outcome::Ok(()),
                    Err(o) => o,
                });
                let mut v = Violated::default();
                if *len < min {
                    v.add("min-points: fewer points than the strategy needs", &["NotEnoughData"]);
                }
                if *len < 2 {
                    v.add("axis-order: axis not strictly increasing", &["Monotonic"]);
                }
                let what = format!("1-D f32 spline={spl} len {len}");
                ev.case(vh::rng::fnv(what.as_bytes()), true);
                Mon { ev: &mut ev, case: 2_000_000 + k as u64 }.judge(&what, &v, &got, &J::obj());
            }
        }
    }
    ev.finish(
        &args,
        "the decision table, enumerated: strategy (Linear, CubicSpline NotAKnot/Natural/Clamped, \
         Periodic with equal / unequal / NaN ends, Individual with ok / wrong-leading / wrong-trailing / \
         wrong-rank boundary array, Bilinear) x data rank (static and dynamic 0..3; statically \
         rank-deficient data: constructor only) x length 0..min+2 x axis (default; explicit of length \
         n-1, n, n+1 with order pattern increasing / decreasing / tie, swap, NaN at every position \
         (quick: first, middle, last) / inf) x (2-D) x and y independently. Non-trivial = rows with zero \
         or at least two simultaneously violated requirements; distinct = distinct table rows.",
        J::obj().set("exhaustive_done", args.only.is_none()),
    );
}
