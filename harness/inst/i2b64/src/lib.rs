//! instantiations of the interpolator zoo: bilinear / f64 (see vh-core::dynapi)
vh_core::def_with2!(with, f64, bilinear, [oo lean] [all lean] [oo lean] [oo lean] [oo lean] [all lean]);
