//! Workload pieces shared by several drivers.

use crate::*;
use vh_core::cases::*;
use vh_core::events::*;
use vh_core::gen::*;
use vh_core::spec::*;

/// dense in-range query set for splines: per interval both knots and the quarter points,
/// both neighbouring floats of every knot, `extra` random points
pub fn spline_queries<T: Flt>(rng: &mut Rng, x: &[T], extra: usize) -> Vec<T> {
    let lo = x[0];
    let hi = x[x.len() - 1];
    let mut q = Vec::new();
    let n_int = x.len() - 1;
    // long axes: the first and last 40 intervals completely, 150 random ones in between
    let keep: Option<std::collections::HashSet<usize>> = if n_int > 300 {
        let mut s: std::collections::HashSet<usize> = (0..40).chain(n_int - 40..n_int).collect();
        for _ in 0..150 {
            s.insert(rng.below(n_int));
        }
        Some(s)
    } else {
        None
    };
    for (iv, w) in x.windows(2).enumerate() {
        if let Some(k) = &keep {
            if !k.contains(&iv) {
                continue;
            }
        }
        let h = w[1] - w[0];
        q.push(w[0]);
        for k in [0.25, 0.5, 0.75] {
            let p = w[0] + h * T::of(k);
            if p > w[0] && p < w[1] {
                q.push(p);
            }
        }
    }
    q.push(hi);
    for (ik, &k) in x.iter().enumerate() {
        if let Some(kp) = &keep {
            if !(kp.contains(&ik) || (ik > 0 && kp.contains(&(ik - 1)))) {
                continue;
            }
        }
        let u = k.up();
        let d = k.down();
        if u <= hi {
            q.push(u);
        }
        if d >= lo {
            q.push(d);
        }
    }
    for _ in 0..extra {
        q.push(rand_in(rng, lo, hi));
    }
    if lo <= T::of(0.0) && T::of(0.0) <= hi {
        q.push(T::of(0.0));
        q.push(T::of(-0.0));
    }
    q
}

/// run all queries through a randomly chosen entry point; returns (queries used, flat
/// results, entry name) or the failure description
pub fn query_all1<T: Elem>(
    rng: &mut Rng,
    interp: &dyn DynInterp1<T>,
    spec: &Spec1<T>,
    q: &[T],
) -> Result<(Vec<T>, Vec<T>, &'static str), String> {
    let lanes = spec.n_lanes();
    let mut res: Vec<T> = Vec::with_capacity(q.len() * lanes);
    let mut used: Vec<T> = Vec::with_capacity(q.len());
    match rng.below(4) {
        0 => {
            for &qq in q {
                match interp.one(qq) {
                    Outcome::Ok(a) => {
                        used.push(qq);
                        res.extend(a.iter().copied());
                    }
                    o => return Err(format!("interp({:?}) -> {}", qq, o.detail())),
                }
            }
            Ok((used, res, "interp"))
        }
        1 if !spec.dynamic && spec.data.ndim() == 1 => {
            for &qq in q {
                match interp.scalar(qq) {
                    Outcome::Ok(v) => {
                        used.push(qq);
                        res.push(v);
                    }
                    o => return Err(format!("interp_scalar({:?}) -> {}", qq, o.detail())),
                }
            }
            Ok((used, res, "interp_scalar"))
        }
        _ => {
            let kind = *rng.pick(&[QKind::S1, QKind::S1, QKind::S2, QKind::S3, QKind::Dyn]);
            let qa = make_query(q, kind, rng);
            match interp.many(&qa) {
                Outcome::Ok(a) => {
                    used = qa.values().iter().copied().collect();
                    res.extend(a.iter().copied());
                    Ok((used, res, "interp_array"))
                }
                o => Err(format!("interp_array({}) -> {}", qa.name(), o.detail())),
            }
        }
    }
}

pub fn query_all2<T: Elem>(
    rng: &mut Rng,
    interp: &dyn DynInterp2<T>,
    spec: &Spec2<T>,
    qx: &[T],
    qy: &[T],
) -> Result<(Vec<T>, Vec<T>, Vec<T>, &'static str), String> {
    let lanes = spec.n_lanes();
    let mut res: Vec<T> = Vec::with_capacity(qx.len() * lanes);
    match rng.below(4) {
        0 => {
            for (&a, &b) in qx.iter().zip(qy) {
                match interp.one(a, b) {
                    Outcome::Ok(r) => res.extend(r.iter().copied()),
                    o => return Err(format!("interp({:?},{:?}) -> {}", a, b, o.detail())),
                }
            }
            Ok((qx.to_vec(), qy.to_vec(), res, "interp"))
        }
        1 if !spec.dynamic && spec.data.ndim() == 2 => {
            for (&a, &b) in qx.iter().zip(qy) {
                match interp.scalar(a, b) {
                    Outcome::Ok(v) => res.push(v),
                    o => return Err(format!("interp_scalar({:?},{:?}) -> {}", a, b, o.detail())),
                }
            }
            Ok((qx.to_vec(), qy.to_vec(), res, "interp_scalar"))
        }
        _ => {
            let kind = *rng.pick(&[QKind::S1, QKind::S1, QKind::S2, QKind::S3, QKind::Dyn]);
            let mut r2 = rng.clone();
            let qax = make_query(qx, kind, rng);
            let qay = make_query(qy, kind, &mut r2);
            *rng = r2;
            match interp.many(&qax, &qay) {
                Outcome::Ok(a) => {
                    res.extend(a.iter().copied());
                    Ok((
                        qax.values().iter().copied().collect(),
                        qay.values().iter().copied().collect(),
                        res,
                        "interp_array",
                    ))
                }
                o => Err(format!("interp_array({}) -> {}", qax.name(), o.detail())),
            }
        }
    }
}

/// Build (and drop) a *different* problem that looks the same from afar right before the real
/// one: same data, boundary, length, end knots and (for dyadic axes exactly) the same sum of
/// knots, but two interior knots moved towards each other. Whatever the crate remembers
/// between builds must not leak into the next interpolator.
pub fn decoy_build1<T: Elem>(rng: &mut Rng, spec: &Spec1<T>) -> bool {
    let Some(x) = &spec.x else { return false };
    let n = x.len();
    if n < 4 {
        return false;
    }
    let mut v: Vec<T> = x.to_vec();
    let i = 1 + rng.below(n - 3);
    let j = i + 1 + rng.below(n - 2 - i);
    let d1 = (v[i + 1] - v[i]) / T::of(4.0);
    let d2 = (v[j] - v[j - 1]) / T::of(4.0);
    let d = if d1 < d2 { d1 } else { d2 };
    v[i] = v[i] + d;
    v[j] = v[j] - d;
    if !v.windows(2).all(|w| w[0] < w[1]) {
        return false;
    }
    let mut decoy = spec.clone();
    decoy.x = Some(vh_core::ndarray::Array1::from(v));
    build1(&decoy, |_| ());
    true
}

pub fn count_labels(ev: &mut Ev, lab: &Labels, elem: &str, dim: &str) {
    ev.count("axis_class", &lab.axis);
    ev.count("data_class", &lab.data);
    ev.count("n_class", &lab.n_class);
    ev.count("boundary", &lab.boundary);
    ev.count("elem", elem);
    ev.count("dim", dim);
}

/// does any lane use a non-zero derivative value?
pub fn has_nonzero_deriv<T: Flt>(b: &Bound<T>) -> bool {
    match b {
        Bound::Individual(a) => a.iter().any(|r| {
            let (l, r) = r.sides();
            [l, r].iter().any(|s| match s {
                SB::FirstDeriv(v) | SB::SecondDeriv(v) => *v != T::of(0.0),
                _ => false,
            })
        }),
        _ => false,
    }
}

/// C02 / C03 spline case: build, query densely, log for the exact checker
pub fn spline_case<T: Elem>(
    prop: &str,
    checks: &[&str],
    case: u64,
    args: &Args,
    ev: &mut Ev,
    log: &mut EventLog,
) {
    let mut rng = Rng::derive(args.seed, prop, &[case]);
    let mut o = SplineOpts::default();
    // half of the cases walk through all 25 ordered (left,right) boundary pairs
    if case % 2 == 0 {
        o.force_pair = Some(sb_pair_index((case / 2) as usize));
    }
    if prop == "C03" && case % 5 == 4 {
        o.extrapolate = true;
    }
    // a few very long axes in every run (several hundred to a few thousand points)
    if case % 97 == 96 {
        o.force_n = Some(*rng.pick(&[513usize, 600, 1025, 2049]));
        o.max_lane_rank = 1;
    }
    let (spec, lab) = gen_spline_case::<T>(&mut rng, &o);
    let x = spec.axis();
    let n = x.len();
    let mut q = spline_queries(&mut rng, &x, 6);
    if o.extrapolate {
        q.extend(queries_outside(&mut rng, &x, 30.0, 6));
    }
    let boundary = match &spec.strat {
        Strat1::Spline { boundary, .. } => boundary.clone(),
        _ => unreachable!(),
    };
    let nontrivial = match prop {
        "C02" => !lab.uniform && n >= 4,
        _ => !lab.uniform || n == 3 || has_nonzero_deriv(&boundary),
    };
    let h = hash_bits(
        &[&bits_of(&x), &bits_of_arr(&spec.data)],
        &[T::NAME, &spec.dim_name(), &format!("{:?}", boundary)],
    );
    ev.case(h, nontrivial);
    count_labels(ev, &lab, T::NAME, &spec.dim_name());
    if let Some((l, r)) = o.force_pair {
        ev.count("ordered_pair", format!("{l}-{r}"));
    }
    ev.count("uniform", if lab.uniform { "uniform" } else { "non-uniform" });
    ev.count("extrapolate", if o.extrapolate { "on" } else { "off" });

    // every fifth case is preceded by the build of a look-alike problem
    if case % 5 == 1 && decoy_build1(&mut rng, &spec) {
        ev.add("decoy_builds", 1);
    }
    build1(&spec, |r| {
        let interp = match r {
            Ok(i) => i,
            Err(out) => {
                ev.violation(
                    &format!("{prop}:build-failed"),
                    &format!("valid spline data set rejected: {}", out.detail()),
                    case,
                    spec1_json(&spec),
                );
                return;
            }
        };
        match query_all1(&mut rng, interp, &spec, &q) {
            Err(f) => ev.violation(
                &format!("{prop}:query-not-answered"),
                &f,
                case,
                spec1_json(&spec),
            ),
            Ok((used, res, entry)) => {
                ev.count("entry", entry);
                ev.add("queries", used.len() as u64);
                ev.add("values", res.len() as u64);
                ev.sample(|| {
                    J::obj()
                        .set("case", case)
                        .set("labels", format!("{:?}", lab))
                        .set("spec", spec1_json(&spec))
                        .set("entry", entry)
                        .set("n_queries", used.len())
                });
                log.push(&event1(prop, case, &spec, &used, &res, entry, checks));
            }
        }
    });
}
