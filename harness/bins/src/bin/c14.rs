//! C14 - *_into calls fill exactly the caller's buffer or reject a wrongly shaped one.
//! In-process: buffers are windows (offset, strided, permuted, reversed) into a larger
//! allocation filled with NaN-payload sentinels. After Ok: no sentinel left inside the
//! view, contents equal the allocating variant, every element outside the view still holds
//! its own sentinel. A buffer of any other shape (and x/y queries of different shapes)
//! must make the call panic.

use vh::cases::*;
use vh::events::*;
use vh::gen::*;
use vh::lay::{Layout, Mat};
use vh::ndarray::{ArrayD, IxDyn};
use vh::report::*;
use vh::spec::*;
use vh::*;

fn padded_layout(rng: &mut Rng, ndim: usize) -> Layout {
    let mut l = Layout::random(rng, ndim);
    if rng.chance(0.6) {
        for a in 0..ndim {
            l.pad_lo[a] = 1 + rng.below(2);
            l.pad_hi[a] = 1 + rng.below(2);
        }
    }
    l
}

/// all wrong shapes derived from the required shape `w` (n_lead = number of query axes)
fn wrong_shapes(w: &[usize], n_lead: usize, dynamic_out: bool) -> Vec<(Vec<usize>, String, bool)> {
    let mut out: Vec<(Vec<usize>, String, bool)> = Vec::new();
    let count = |s: &[usize]| s.iter().product::<usize>();
    for a in 0..w.len() {
        let mut s = w.to_vec();
        s[a] += 1;
        out.push((s, format!("axis{a}+1"), false));
        if w[a] >= 1 {
            let mut s = w.to_vec();
            s[a] -= 1;
            out.push((s, format!("axis{a}-1"), false));
        }
    }
    for a in 0..w.len() {
        for b in a + 1..w.len() {
            if w[a] != w[b] {
                let mut s = w.to_vec();
                s.swap(a, b);
                let kind = if b < n_lead {
                    "leading-axes-permuted"
                } else if a >= n_lead {
                    "trailing-axes-permuted"
                } else {
                    "leading-trailing-permuted"
                };
                out.push((s, kind.to_string(), true));
            }
        }
    }
    // same element count, different factorisation
    for a in 0..w.len() {
        if w[a] >= 2 && w[a] % 2 == 0 {
            for b in 0..w.len() {
                if b != a {
                    let mut s = w.to_vec();
                    s[a] /= 2;
                    s[b] *= 2;
                    if s != w && count(&s) == count(w) {
                        out.push((s, "same-count-refactored".to_string(), true));
                    }
                }
            }
        }
    }
    if dynamic_out {
        let mut s = w.to_vec();
        s.push(1);
        out.push((s, "rank+1(append 1)".into(), true));
        let mut s = vec![1];
        s.extend(w);
        out.push((s, "rank+1(prepend 1)".into(), true));
        if w.len() >= 2 {
            let mut s = w.to_vec();
            let last = s.pop().unwrap();
            let l = s.len() - 1;
            s[l] *= last;
            out.push((s, "rank-1(merge last two)".into(), true));
            let mut s = w.to_vec();
            let first = s.remove(0);
            s[0] *= first;
            out.push((s, "rank-1(merge first two)".into(), true));
        }
        if w.len() == 1 {
            out.push((vec![], "rank-1(scalar)".into(), false));
        }
    }
    out.retain(|(s, _, _)| s != w);
    out
}

struct Chk<'a> {
    ev: &'a mut Ev,
    case: u64,
    replay: J,
    stop: bool,
}

impl Chk<'_> {
    fn bad(&mut self, sig: &str, msg: String) {
        if !self.stop {
            self.ev.violation(sig, &msg, self.case, self.replay.clone());
        }
        self.stop = true;
    }

    /// run `call` on a sentinel window of the required shape and verify the three clauses
    fn good_buffer<T: Flt>(
        &mut self,
        rng: &mut Rng,
        what: &str,
        want: &[usize],
        reference: &Outcome<ArrayD<T>>,
        call: &mut dyn FnMut(vh::ndarray::ArrayViewMutD<'_, T>) -> Outcome<()>,
    ) {
        let lay = padded_layout(rng, want.len());
        let mut m = Mat::blank(want, &lay, |k| T::sentinel(k));
        let mask = m.window_mask();
        let o = call(m.view_mut());
        if matches!(o, Outcome::Untypeable) {
            return;
        }
        self.ev.add("correct_buffers", 1);
        self.ev.count("window_layout", lay.class());
        let case = self.case;
        self.ev.sample(|| {
            J::obj()
                .set("case", case)
                .set("call", what)
                .set("required_shape", J::arr(want.to_vec()))
                .set("window_layout", format!("{:?}", lay))
                .set("enclosing_allocation_shape", J::arr(m.base.shape().to_vec()))
                .set("outcome", o.tag())
        });
        let slack = lay.pad_lo.iter().zip(&lay.pad_hi).any(|(a, b)| *a > 0 && *b > 0);
        if slack {
            self.ev.add("windows_with_leading_and_trailing_slack", 1);
        }
        // outside the view: untouched, whatever the outcome
        let mut outside = 0u64;
        for (k, (v, inside)) in m.base.iter().zip(mask.iter()).enumerate() {
            if !*inside {
                outside += 1;
                if v.bits() != T::sentinel(k as u64).bits() {
                    self.bad(
                        "C14:wrote-outside-buffer",
                        format!("{what}: element {k} of the enclosing allocation (outside the view, layout {}) changed to {v:?}", lay.class()),
                    );
                    return;
                }
            }
        }
        self.ev.add("outside_elements_checked", outside);
        match (&o, reference) {
            (Outcome::Ok(()), Outcome::Ok(r)) => {
                self.ev.add("ok_fully_written_checked", 1);
                let v = m.view();
                if let Some((idx, _)) = v.iter().enumerate().find(|(_, x)| x.is_sentinel()) {
                    self.bad(
                        "C14:buffer-not-fully-written",
                        format!("{what}: returned Ok but element {idx} of the buffer (shape {want:?}, layout {}) was never written", lay.class()),
                    );
                    return;
                }
                if !vh::flt::arr_bits_eq(&v, &r.view()) {
                    self.bad("C14:differs-from-allocating-variant", format!("{what}: buffer contents differ from the allocating variant"));
                }
            }
            (Outcome::Err(k1, _), Outcome::Err(k2, _)) if k1 == k2 => {
                self.ev.add("errors_agree", 1);
            }
            (a, b) => self.bad(
                "C14:outcome-differs-from-allocating-variant",
                format!("{what}: _into -> {}, allocating variant -> {}", a.detail(), b.tag()),
            ),
        }
    }

    fn wrong_buffer<T: Flt>(
        &mut self,
        what: &str,
        shape: &[usize],
        kind: &str,
        nontrivial: bool,
        call: &mut dyn FnMut(vh::ndarray::ArrayViewMutD<'_, T>) -> Outcome<()>,
    ) {
        let mut buf = ArrayD::<T>::from_elem(IxDyn(shape), T::sentinel(3));
        let o = call(buf.view_mut());
        match o {
            Outcome::Untypeable => {}
            Outcome::Panic(_) => {
                self.ev.add("wrong_buffers_rejected", 1);
                self.ev.count("wrong_shape_kind", kind);
                if nontrivial {
                    self.ev.add("wrong_buffers_rejected_same_count", 1);
                }
            }
            other => {
                self.ev.count("wrong_shape_kind", kind);
                self.bad(
                    "C14:wrong-shape-not-rejected",
                    format!("{what}: buffer of shape {shape:?} ({kind}) -> {} instead of a panic", other.tag()),
                );
            }
        }
    }
}

impl<'a> Chk<'a> {
    /// wrongly shaped buffer together with a query that is NaN, infinite or out of range: the
    /// call may panic or return an error, but it must never return Ok
    fn wrong_buffer_special<T: Flt>(
        &mut self,
        what: &str,
        shape: &[usize],
        kind: &str,
        call: &mut dyn FnMut(vh::ndarray::ArrayViewMutD<'_, T>) -> Outcome<()>,
    ) {
        let mut buf = ArrayD::<T>::from_elem(IxDyn(shape), T::sentinel(3));
        match call(buf.view_mut()) {
            Outcome::Untypeable => {}
            Outcome::Ok(()) => self.bad(
                "C14:wrong-shape-not-rejected",
                format!("{what}: buffer of shape {shape:?} ({kind}) -> Ok instead of a panic"),
            ),
            Outcome::Panic(_) => self.ev.add("wrong_buffers_special_query_panic", 1),
            Outcome::Err(..) => self.ev.add("wrong_buffers_special_query_err", 1),
        }
    }
}

/// NaN, the infinities, just outside and far outside the range
fn special_queries<T: Flt>(x: &[T]) -> Vec<T> {
    let (lo, hi) = (x[0], x[x.len() - 1]);
    vec![T::nan(), T::of(f64::INFINITY), T::of(f64::NEG_INFINITY), hi.up(), lo.down(), hi + (hi - lo) * T::of(3.5), lo - (hi - lo) * T::of(100.0)]
}

fn queries_for<T: Flt>(rng: &mut Rng, x: &[T], sweep: Option<usize>) -> Vec<(QKind, Vec<usize>)> {
    let _ = x;
    if let Some(len) = sweep {
        // batch-length sweep: one rank-1 batch of exactly this length (a path that works in blocks
        // of any size b accepts a buffer that is wrong by one only when the length is k*b or k*b+1)
        return vec![(QKind::S1, vec![len])];
    }
    let mut v = vec![
        (QKind::S1, vec![if rng.chance(0.1) { *rng.pick(&[256usize, 1025, 4097]) } else { 1 + rng.below(4) }]),
        (QKind::S1, vec![0]),
        (QKind::S2, vec![2, 3]),
        (QKind::S3, vec![2, 1, 3]),
        (QKind::Dyn, vec![3]),
        (QKind::Dyn, vec![2, 2]),
        (QKind::Dyn, vec![0]),
        (QKind::S0, vec![]),
    ];
    if rng.chance(0.5) {
        v.push((QKind::S2, vec![3, 0]));
    }
    v
}

fn case1<T: Elem>(case: u64, args: &Args, ev: &mut Ev, sweep: Option<usize>) {
    let mut rng = Rng::derive(args.seed, "C14", &[case]);
    let spline = case % 3 == 1;
    let extrapolate = rng.chance(0.5);
    // every tenth case has up to five trailing data axes: results with seven and more axes
    let lane_rank = if sweep.is_some() { 1 } else if case % 10 == 9 { 5 } else { 3 };
    let (spec, _) = if spline {
        gen_spline_case::<T>(&mut rng, &SplineOpts { max_n: 8, max_lane_rank: lane_rank, extrapolate, ..Default::default() })
    } else {
        gen_linear_case::<T>(&mut rng, &LinearOpts { max_n: 8, max_lane_rank: lane_rank, allow_cluster: false, extrapolate, ..Default::default() })
    };
    ev.count("extrapolate", if extrapolate { "on" } else { "off" });
    let mut spec = spec;
    if !spline && !spec.broadcast_lanes && case % 5 == 2 {
        // the buffer must equal the allocating variant bit for bit whatever the data contain
        let k = sprinkle_specials(&mut rng, &mut spec.data);
        ev.add("special_data_samples", k as u64);
    }
    let x = spec.axis();
    let lane_shape = spec.lane_shape();
    let h = hash_bits(&[&bits_of(&x), &bits_of_arr(&spec.data)], &[T::NAME, &spec.dim_name(), &spec.strat.name()]);
    ev.case(h, true);
    ev.count("strategy", if spline { "CubicSpline" } else { "Linear" });
    ev.count("dim", spec.dim_name());
    ev.count("elem", T::NAME);
    let replay = spec1_json(&spec);
    build1(&spec, |r| {
        let Ok(interp) = r else { return };
        let mut c = Chk { ev, case, replay: replay.clone(), stop: false };
        // single query
        let q = rand_in(&mut rng, x[0], x[x.len() - 1]);
        let reference = interp.one(q);
        c.good_buffer(&mut rng, &format!("interp_into({q:?})"), &lane_shape, &reference, &mut |b| interp.one_into(q, b));
        let qbad = x[x.len() - 1].up();
        c.good_buffer(&mut rng, &format!("interp_into({qbad:?}) [out of range]"), &lane_shape, &interp.one(qbad), &mut |b| interp.one_into(qbad, b));
        // wrong shapes: for a query between knots and for queries exactly at knots
        let knots = [x[0], x[x.len() - 1], x[x.len() / 2]];
        for (s, kind, nt) in wrong_shapes(&lane_shape, 0, spec.dynamic) {
            c.wrong_buffer::<T>(&format!("interp_into({q:?})"), &s, &kind, nt, &mut |b| interp.one_into(q, b));
            for kq in knots {
                c.wrong_buffer::<T>(&format!("interp_into({kq:?}) [query at a knot]"), &s, &kind, nt, &mut |b| interp.one_into(kq, b));
            }
        }
        for sq in special_queries(&x) {
            for (s, kind, _) in wrong_shapes(&lane_shape, 0, spec.dynamic) {
                c.wrong_buffer_special::<T>(&format!("interp_into({sq:?}) [special query]"), &s, &kind, &mut |b| interp.one_into(sq, b));
            }
        }
        for kq in knots {
            let r = interp.one(kq);
            c.good_buffer(&mut rng, &format!("interp_into({kq:?}) [query at a knot]"), &lane_shape, &r, &mut |b| interp.one_into(kq, b));
        }
        // batches
        for (kind, qshape) in queries_for(&mut rng, &x, sweep) {
            let n: usize = qshape.iter().product();
            let vals: Vec<T> = (0..n).map(|_| rand_in(&mut rng, x[0], x[x.len() - 1])).collect();
            let qa = Query::from_vec(vals, &qshape, kind);
            let mut want = qshape.clone();
            want.extend(&lane_shape);
            let reference = interp.many(&qa);
            if matches!(reference, Outcome::Untypeable) {
                continue;
            }
            let what = format!("interp_array_into({})", qa.name());
            c.ev.count("query", format!("{}{}", kind.name(), if n == 0 { "(empty)" } else { "" }));
            c.good_buffer(&mut rng, &what, &want, &reference, &mut |b| interp.many_into(&qa, b));
            let dyn_out = spec.dynamic || kind == QKind::Dyn || want.len() > 6;
            for (s, wkind, nt) in wrong_shapes(&want, qshape.len(), dyn_out) {
                c.wrong_buffer::<T>(&what, &s, &wkind, nt, &mut |b| interp.many_into(&qa, b));
            }
            // the same query values stored once and viewed with zero strides (broadcast views):
            // a scalar repeated along the first axis
            if !qshape.is_empty() && qshape[0] > 1 && n <= 64 {
                let mut red = qshape.clone();
                red[0] = 1;
                let m: usize = red.iter().product();
                let rvals: Vec<T> = (0..m).map(|_| rand_in(&mut rng, x[0], x[x.len() - 1])).collect();
                let qb = Query::broadcast(&ArrayD::from_shape_vec(IxDyn(&red), rvals).unwrap(), &qshape, kind);
                let reference = interp.many(&qb);
                if !matches!(reference, Outcome::Untypeable) {
                    let what = format!("interp_array_into({})", qb.name());
                    c.ev.count("query", format!("{}(broadcast)", kind.name()));
                    c.good_buffer(&mut rng, &what, &want, &reference, &mut |b| interp.many_into(&qb, b));
                    for (s, wkind, nt) in wrong_shapes(&want, qshape.len(), dyn_out) {
                        c.wrong_buffer::<T>(&what, &s, &wkind, nt, &mut |b| interp.many_into(&qb, b));
                    }
                }
            }
            // the same batch made of one special value throughout, and with one special element
            if n > 0 && n <= 64 {
                let sp = special_queries(&x);
                let sq = sp[rng.below(sp.len())];
                let mut mixed: Vec<T> = qa.values().iter().copied().collect();
                let pos = rng.below(n);
                mixed[pos] = sq;
                for (label, vals) in [("all", vec![sq; n]), ("one", mixed)] {
                    let qs = Query::from_vec(vals, &qshape, kind);
                    let what = format!("interp_array_into({}) [{label} = {sq:?}]", qs.name());
                    for (s, wkind, _) in wrong_shapes(&want, qshape.len(), dyn_out) {
                        c.wrong_buffer_special::<T>(&what, &s, &wkind, &mut |b| interp.many_into(&qs, b));
                    }
                }
            }
            if c.stop {
                return;
            }
        }
    });
}

fn case2<T: Elem>(case: u64, args: &Args, ev: &mut Ev, sweep: Option<usize>) {
    let mut rng = Rng::derive(args.seed, "C14", &[case]);
    let extrapolate = rng.chance(0.5);
    let (spec, _) = gen_grid_case::<T>(&mut rng, &GridOpts { max_nx: 5, max_ny: 4, max_lane_rank: if sweep.is_some() { 1 } else if case % 10 == 9 { 4 } else { 2 }, allow_cluster: false, extrapolate, ..Default::default() });
    ev.count("extrapolate", if extrapolate { "on" } else { "off" });
    let x = spec.axis_x();
    let y = spec.axis_y();
    let lane_shape = spec.lane_shape();
    let h = hash_bits(&[&bits_of(&x), &bits_of(&y), &bits_of_arr(&spec.data)], &[T::NAME, &spec.dim_name()]);
    ev.case(h, true);
    ev.count("strategy", "Bilinear");
    ev.count("dim", format!("2d-{}", spec.dim_name()));
    ev.count("elem", T::NAME);
    let replay = spec2_json(&spec);
    build2(&spec, |r| {
        let Ok(interp) = r else { return };
        let mut c = Chk { ev, case, replay: replay.clone(), stop: false };
        let (qx, qy) = (rand_in(&mut rng, x[0], x[x.len() - 1]), rand_in(&mut rng, y[0], y[y.len() - 1]));
        let reference = interp.one(qx, qy);
        c.good_buffer(&mut rng, "2-D interp_into", &lane_shape, &reference, &mut |b| interp.one_into(qx, qy, b));
        for (s, kind, nt) in wrong_shapes(&lane_shape, 0, spec.dynamic) {
            c.wrong_buffer::<T>("2-D interp_into", &s, &kind, nt, &mut |b| interp.one_into(qx, qy, b));
            // exactly at a grid node / on a grid line
            c.wrong_buffer::<T>("2-D interp_into [node]", &s, &kind, nt, &mut |b| interp.one_into(x[0], y[y.len() - 1], b));
            c.wrong_buffer::<T>("2-D interp_into [grid line]", &s, &kind, nt, &mut |b| interp.one_into(x[x.len() - 1], qy, b));
            let (sx, sy) = (special_queries(&x), special_queries(&y));
            for k in 0..sx.len() {
                c.wrong_buffer_special::<T>(&format!("2-D interp_into({:?}, {qy:?}) [special query]", sx[k]), &s, &kind, &mut |b| interp.one_into(sx[k], qy, b));
                c.wrong_buffer_special::<T>(&format!("2-D interp_into({qx:?}, {:?}) [special query]", sy[k]), &s, &kind, &mut |b| interp.one_into(qx, sy[k], b));
                c.wrong_buffer_special::<T>(&format!("2-D interp_into({:?}, {:?}) [special query]", sx[k], sy[k]), &s, &kind, &mut |b| interp.one_into(sx[k], sy[k], b));
            }
        }
        for (kind, qshape) in queries_for(&mut rng, &x, sweep) {
            let n: usize = qshape.iter().product();
            let vx: Vec<T> = (0..n).map(|_| rand_in(&mut rng, x[0], x[x.len() - 1])).collect();
            let vy: Vec<T> = (0..n).map(|_| rand_in(&mut rng, y[0], y[y.len() - 1])).collect();
            let qax = Query::from_vec(vx.clone(), &qshape, kind);
            let qay = Query::from_vec(vy.clone(), &qshape, kind);
            let mut want = qshape.clone();
            want.extend(&lane_shape);
            let reference = interp.many(&qax, &qay);
            if matches!(reference, Outcome::Untypeable) {
                continue;
            }
            let what = format!("2-D interp_array_into({})", qax.name());
            c.ev.count("query", format!("2d-{}{}", kind.name(), if n == 0 { "(empty)" } else { "" }));
            c.good_buffer(&mut rng, &what, &want, &reference, &mut |b| interp.many_into(&qax, &qay, b));
            let dyn_out = spec.dynamic || kind == QKind::Dyn || want.len() > 6;
            for (s, wkind, nt) in wrong_shapes(&want, qshape.len(), dyn_out) {
                c.wrong_buffer::<T>(&what, &s, &wkind, nt, &mut |b| interp.many_into(&qax, &qay, b));
            }
            // mesh-grid style broadcast views: xs repeated along the first axis, ys along the last
            if qshape.len() >= 2 && qshape[0] > 1 && qshape[qshape.len() - 1] > 1 && n <= 64 {
                let (mut rx, mut ry) = (qshape.clone(), qshape.clone());
                rx[0] = 1;
                let last = qshape.len() - 1;
                ry[last] = 1;
                let bx: Vec<T> = (0..rx.iter().product::<usize>()).map(|_| rand_in(&mut rng, x[0], x[x.len() - 1])).collect();
                let by: Vec<T> = (0..ry.iter().product::<usize>()).map(|_| rand_in(&mut rng, y[0], y[y.len() - 1])).collect();
                let qbx = Query::broadcast(&ArrayD::from_shape_vec(IxDyn(&rx), bx).unwrap(), &qshape, kind);
                let qby = Query::broadcast(&ArrayD::from_shape_vec(IxDyn(&ry), by).unwrap(), &qshape, kind);
                let reference = interp.many(&qbx, &qby);
                if !matches!(reference, Outcome::Untypeable) {
                    let what = format!("2-D interp_array_into({}, mesh grid)", qbx.name());
                    c.ev.count("query", format!("2d-{}(broadcast)", kind.name()));
                    c.good_buffer(&mut rng, &what, &want, &reference, &mut |b| interp.many_into(&qbx, &qby, b));
                    for (s, wkind, nt) in wrong_shapes(&want, qshape.len(), dyn_out) {
                        c.wrong_buffer::<T>(&what, &s, &wkind, nt, &mut |b| interp.many_into(&qbx, &qby, b));
                    }
                }
            }
            if n > 0 && n <= 64 {
                let sp = special_queries(&x);
                let sq = sp[rng.below(sp.len())];
                let qsx = Query::from_vec(vec![sq; n], &qshape, kind);
                let what = format!("2-D interp_array_into({}) [xs all = {sq:?}]", qsx.name());
                for (s, wkind, _) in wrong_shapes(&want, qshape.len(), dyn_out) {
                    c.wrong_buffer_special::<T>(&what, &s, &wkind, &mut |b| interp.many_into(&qsx, &qay, b));
                }
            }
            // xs / ys of different shapes (same static type): must panic, with or without buffer
            if !qshape.is_empty() {
                let mut s2 = qshape.clone();
                s2[0] += 1;
                let n2: usize = s2.iter().product();
                let vy2: Vec<T> = (0..n2).map(|_| rand_in(&mut rng, y[0], y[y.len() - 1])).collect();
                let qay2 = Query::from_vec(vy2, &s2, kind);
                for (label, o) in [
                    ("interp_array", interp.many(&qax, &qay2).map(|_| ())),
                    ("interp_array_into", {
                        let mut buf = ArrayD::<T>::from_elem(IxDyn(&want), T::sentinel(1));
                        interp.many_into(&qax, &qay2, buf.view_mut())
                    }),
                ] {
                    match o {
                        Outcome::Panic(_) => c.ev.add("xy_shape_mismatch_rejected", 1),
                        Outcome::Untypeable => {}
                        other => c.bad(
                            "C14:xy-shape-mismatch-not-rejected",
                            format!("2-D {label} with xs {:?} and ys {:?} -> {} instead of a panic", qshape, s2, other.tag()),
                        ),
                    }
                }
            }
            if c.stop {
                return;
            }
        }
    });
}

fn main() {
    let args = Args::parse("C14");
    let n = args.budget(400, 40000);
    // after the random cases: every batch length 1..=640 (thorough: ..=4200) once through Interp1D
    // and once through Interp2D, each with its correct buffer and all wrong ones
    let sweep_max = args.budget(640, 4200);
    let ev = run_sharded(&args, n + 2 * sweep_max, |case, ev, _log| {
        if case >= n {
            let k = case - n;
            let len = Some(1 + (k / 2) as usize);
            ev.add("batch_length_sweep_cases", 1);
            match (k % 2, len.unwrap() % 7 == 3) {
                (0, false) => case1::<f64>(case, &args, ev, len),
                (0, true) => case1::<f32>(case, &args, ev, len),
                (_, false) => case2::<f64>(case, &args, ev, len),
                (_, true) => case2::<f32>(case, &args, ev, len),
            }
            return;
        }
        let f32_ = case % 5 == 4;
        match (case % 3, f32_) {
            (2, false) => case2::<f64>(case, &args, ev, None),
            (2, true) => case2::<f32>(case, &args, ev, None),
            (_, false) => case1::<f64>(case, &args, ev, None),
            (_, true) => case1::<f32>(case, &args, ev, None),
        }
    });
    ev.finish(
        &args,
        "Interp1D (Linear, CubicSpline) / Interp2D (Bilinear), data Ix1..Ix4 and IxDyn; interp_into and \
         interp_array_into for query types Ix0..Ix3 and IxDyn (non-empty and empty); correct buffers \
         are windows with random layout (permuted memory order, steps, reversed axes, 1-2 elements of \
         slack on both sides) into a sentinel-filled allocation; wrong buffers: every axis +-1, \
         leading / trailing / leading-trailing axes permuted, same element count refactored, rank +-1 \
         (dynamic); x/y query arrays of different shapes. Every case is non-trivial (contains \
         same-count wrong shapes and windows with slack on both sides); distinct by input hash.",
        J::obj(),
    );
}
