//! instantiations of the interpolator zoo: rec / f64 (see vh-core::dynapi)
vh_core::def_with2!(with, f64, rec, [oo full] [oo lean] [oo lean] [oo lean] [oo lean] [all full]);
