//! C19 - the unchecked type cast of the rank-1 fast path only relabels identical types.
//! The finite instantiation set is enumerated by macro (vh-core::c19): for every
//! (interpolator, element type, data dimension type, storage kind) one interpolator is
//! queried with every query dimension type; with the hook (cfg ndarray_interp_verif) every
//! cast event is checked (identical type names / sizes / alignments, expected count); fast
//! path, general path and per-element interp must agree in every bit. Under Miri the same
//! program is the UB oracle.

use vh::c19::Inst;
use vh::ndarray::{Array1, Array2, Array3, ArrayBase, ArrayViewMut, Data, Dimension, Ix1, RemoveAxis};
use vh::ndarray_interp::interp1d::{Interp1D, Interp1DBuilder, Interp1DStrategy, Interp1DStrategyBuilder};
use vh::ndarray_interp::interp2d::{Interp2D, Interp2DBuilder, Interp2DStrategy, Interp2DStrategyBuilder};
use vh::ndarray_interp::{BuilderError, InterpolateError};
use vh::outcome::guard;
use vh::report::*;
use vh::*;

/// A user-defined strategy that implements only the required trait methods: the value is a
/// known, x/y-asymmetric function of the query and the lane index. The fast path must be
/// unobservable for *any* strategy, not only for the built-in ones.
#[derive(Debug, Clone)]
struct Probe;

impl<Sd, Sx, D> Interp1DStrategyBuilder<Sd, Sx, D> for Probe
where
    Sd: Data<Elem = f64>,
    Sx: Data<Elem = f64>,
    D: Dimension + RemoveAxis,
{
    const MINIMUM_DATA_LENGHT: usize = 1;
    type FinishedStrat = Probe;
    fn build<Sx2: Data<Elem = f64>>(self, _x: &ArrayBase<Sx2, Ix1>, _data: &ArrayBase<Sd, D>) -> Result<Probe, BuilderError> {
        Ok(self)
    }
}

impl<Sd, Sx, D> Interp1DStrategy<Sd, Sx, D> for Probe
where
    Sd: Data<Elem = f64>,
    Sx: Data<Elem = f64>,
    D: Dimension + RemoveAxis,
{
    fn interp_into(&self, _i: &Interp1D<Sd, Sx, D, Self>, mut target: ArrayViewMut<'_, f64, D::Smaller>, x: f64) -> Result<(), InterpolateError> {
        for (l, t) in target.iter_mut().enumerate() {
            *t = probe_value(x, 0.0, l);
        }
        Ok(())
    }
}

impl<Sd, Sx, Sy, D> Interp2DStrategyBuilder<Sd, Sx, Sy, D> for Probe
where
    Sd: Data<Elem = f64>,
    Sx: Data<Elem = f64>,
    Sy: Data<Elem = f64>,
    D: Dimension + RemoveAxis,
    D::Smaller: RemoveAxis,
{
    const MINIMUM_DATA_LENGHT: usize = 1;
    type FinishedStrat = Probe;
    fn build(self, _x: &ArrayBase<Sx, Ix1>, _y: &ArrayBase<Sy, Ix1>, _data: &ArrayBase<Sd, D>) -> Result<Probe, BuilderError> {
        Ok(self)
    }
}

impl<Sd, Sx, Sy, D> Interp2DStrategy<Sd, Sx, Sy, D> for Probe
where
    Sd: Data<Elem = f64>,
    Sx: Data<Elem = f64>,
    Sy: Data<Elem = f64>,
    D: Dimension + RemoveAxis,
    D::Smaller: RemoveAxis,
{
    fn interp_into(
        &self,
        _i: &Interp2D<Sd, Sx, Sy, D, Self>,
        mut target: ArrayViewMut<'_, f64, <D::Smaller as Dimension>::Smaller>,
        x: f64,
        y: f64,
    ) -> Result<(), InterpolateError> {
        for (l, t) in target.iter_mut().enumerate() {
            *t = probe_value(x, y, l);
        }
        Ok(())
    }
}

fn probe_value(x: f64, y: f64, lane: usize) -> f64 {
    x * 4.0 + y * 1024.0 + lane as f64 / 8.0
}

const PQX: [f64; 3] = [0.5, 1.75, 1.0];
const PQY: [f64; 3] = [1.25, 0.25, 2.0];

macro_rules! probe1 {
    ($ev:expr, $id:expr, $name:expr, $build:expr) => {{
        let mut inst = Inst { ev: $ev, name: $name.to_string(), id: $id };
        inst.begin();
        match guard(|| $build) {
            Err(p) => inst.failed("build", &p),
            Ok(interp) => {
                let q = Array1::from(PQX.to_vec());
                let bits = |a: &mut dyn Iterator<Item = f64>| -> Vec<u64> { a.map(|v| v.to_bits()).collect() };
                let fast = guard(|| interp.interp_array(&q).unwrap());
                inst.casts("interp_array(Ix1)", 2);
                let fast_view = guard(|| interp.interp_array(&q.view()).unwrap());
                inst.casts("interp_array(Ix1 view)", 2);
                let gd = guard(|| interp.interp_array(&q.clone().into_dyn()).unwrap());
                inst.casts("interp_array(IxDyn rank 1)", 0);
                let g2 = guard(|| interp.interp_array(&q.clone().into_shape_with_order((3, 1)).unwrap()).unwrap());
                inst.casts("interp_array(Ix2)", 0);
                let singles = guard(|| {
                    let mut v = Vec::new();
                    for &x in q.iter() {
                        v.extend(interp.interp(x).unwrap().iter().copied());
                    }
                    v
                });
                match (fast, fast_view, gd, g2, singles) {
                    (Ok(f), Ok(fv), Ok(gd), Ok(g2), Ok(s)) => {
                        let fb = bits(&mut f.iter().copied());
                        let lanes = fb.len() / 3;
                        let want: Vec<u64> = (0..3).flat_map(|k| (0..lanes).map(move |l| probe_value(PQX[k], 0.0, l).to_bits())).collect();
                        inst.compare("Ix1 vs the strategy's own function", &fb, &want);
                        inst.compare("Ix1 vs Ix1 view", &fb, &bits(&mut fv.iter().copied()));
                        inst.compare("Ix1 vs IxDyn(rank 1)", &fb, &bits(&mut gd.iter().copied()));
                        inst.compare("Ix1 vs Ix2 (n,1)", &fb, &bits(&mut g2.iter().copied()));
                        inst.compare("Ix1 vs per-element interp", &fb, &bits(&mut s.iter().copied()));
                    }
                    (a, b, c, d, e) => {
                        for (n, r) in [("Ix1", a.err()), ("Ix1 view", b.err()), ("IxDyn", c.err()), ("Ix2", d.err()), ("interp", e.err())] {
                            if let Some(p) = r {
                                inst.failed(n, &p);
                            }
                        }
                    }
                }
            }
        }
    }};
}

macro_rules! probe2 {
    ($ev:expr, $id:expr, $name:expr, $build:expr) => {{
        let mut inst = Inst { ev: $ev, name: $name.to_string(), id: $id };
        inst.begin();
        match guard(|| $build) {
            Err(p) => inst.failed("build", &p),
            Ok(interp) => {
                let (qx, qy) = (Array1::from(PQX.to_vec()), Array1::from(PQY.to_vec()));
                let bits = |a: &mut dyn Iterator<Item = f64>| -> Vec<u64> { a.map(|v| v.to_bits()).collect() };
                let fast = guard(|| interp.interp_array(&qx, &qy).unwrap());
                inst.casts("interp_array(Ix1)", 3);
                let fast_view = guard(|| interp.interp_array(&qx.view(), &qy).unwrap());
                inst.casts("interp_array(Ix1 view, Ix1 owned)", 3);
                let gd = guard(|| interp.interp_array(&qx.clone().into_dyn(), &qy.clone().into_dyn()).unwrap());
                inst.casts("interp_array(IxDyn rank 1)", 0);
                let g2 = guard(|| {
                    interp
                        .interp_array(&qx.clone().into_shape_with_order((3, 1)).unwrap(), &qy.clone().into_shape_with_order((3, 1)).unwrap())
                        .unwrap()
                });
                inst.casts("interp_array(Ix2)", 0);
                let singles = guard(|| {
                    let mut v = Vec::new();
                    for k in 0..3 {
                        v.extend(interp.interp(qx[k], qy[k]).unwrap().iter().copied());
                    }
                    v
                });
                match (fast, fast_view, gd, g2, singles) {
                    (Ok(f), Ok(fv), Ok(gd), Ok(g2), Ok(s)) => {
                        let fb = bits(&mut f.iter().copied());
                        let lanes = fb.len() / 3;
                        let want: Vec<u64> = (0..3).flat_map(|k| (0..lanes).map(move |l| probe_value(PQX[k], PQY[k], l).to_bits())).collect();
                        inst.compare("Ix1 vs the strategy's own function", &fb, &want);
                        inst.compare("Ix1 vs Ix1 view/owned", &fb, &bits(&mut fv.iter().copied()));
                        inst.compare("Ix1 vs IxDyn(rank 1)", &fb, &bits(&mut gd.iter().copied()));
                        inst.compare("Ix1 vs Ix2 (n,1)", &fb, &bits(&mut g2.iter().copied()));
                        inst.compare("Ix1 vs per-element interp", &fb, &bits(&mut s.iter().copied()));
                    }
                    (a, b, c, d, e) => {
                        for (n, r) in [("Ix1", a.err()), ("Ix1 view", b.err()), ("IxDyn", c.err()), ("Ix2", d.err()), ("interp", e.err())] {
                            if let Some(p) = r {
                                inst.failed(n, &p);
                            }
                        }
                    }
                }
            }
        }
    }};
}

/// the fast path with a user-defined strategy (1-D and 2-D; static and dynamic data
/// dimensions; owned and view storage)
fn user_strategies(ev: &mut Ev) {
    let x = Array1::from(vec![0.0, 1.0, 2.0]);
    let d1 = Array1::from(vec![1.0, 2.0, 4.0]);
    let d2 = Array2::from_shape_fn((3, 2), |(i, j)| (i * 2 + j) as f64);
    let d3 = Array3::from_shape_fn((3, 3, 2), |(i, j, k)| (i * 6 + j * 2 + k) as f64);
    let g2 = Array2::from_shape_fn((3, 3), |(i, j)| (i * 3 + j) as f64);
    let id = 9_000_000u64;
    probe1!(ev, id + 1, "Interp1D<f64, Ix1, owned, user strategy>", Interp1DBuilder::new(d1.clone()).x(x.clone()).strategy(Probe).build().unwrap());
    probe1!(ev, id + 2, "Interp1D<f64, Ix2, owned, user strategy>", Interp1DBuilder::new(d2.clone()).x(x.clone()).strategy(Probe).build().unwrap());
    probe1!(ev, id + 3, "Interp1D<f64, Ix2, view, user strategy>", Interp1DBuilder::new(d2.view()).x(x.view()).strategy(Probe).build().unwrap());
    probe1!(ev, id + 4, "Interp1D<f64, IxDyn, owned, user strategy>", Interp1DBuilder::new(d2.clone().into_dyn()).x(x.clone()).strategy(Probe).build().unwrap());
    probe1!(ev, id + 5, "Interp1D<f64, Ix3, shared, user strategy>", Interp1DBuilder::new(d3.clone().into_shared()).x(x.clone().into_shared()).strategy(Probe).build().unwrap());
    probe2!(ev, id + 6, "Interp2D<f64, Ix2, owned, user strategy>", Interp2DBuilder::new(g2.clone()).x(x.clone()).y(x.clone()).strategy(Probe).build().unwrap());
    probe2!(ev, id + 7, "Interp2D<f64, Ix3, owned, user strategy>", Interp2DBuilder::new(d3.clone()).x(x.clone()).y(x.clone()).strategy(Probe).build().unwrap());
    probe2!(ev, id + 8, "Interp2D<f64, Ix3, view, user strategy>", Interp2DBuilder::new(d3.view()).x(x.view()).y(x.view()).strategy(Probe).build().unwrap());
    probe2!(ev, id + 9, "Interp2D<f64, IxDyn, owned, user strategy>", Interp2DBuilder::new(d3.clone().into_dyn()).x(x.clone()).y(x.clone()).strategy(Probe).build().unwrap());
    probe2!(ev, id + 10, "Interp2D<f64, IxDyn, shared, user strategy>", Interp2DBuilder::new(d3.clone().into_dyn().into_shared()).x(x.clone().into_shared()).y(x.clone().into_shared()).strategy(Probe).build().unwrap());
    ev.add("user_strategy_instantiations", 10);
}

/// fast path vs general path through the caller's buffer: the same query values as a rank-1
/// array (fast path, plain buffer) and as rank-2 / rank-3 / dynamic arrays written into
/// buffers that are regions of interest, stepped or reversed views of larger arrays
fn general_path_into_buffers(ev: &mut Ev) {
    use vh::ndarray::{s, Array4, ArrayD, IxDyn};
    use vh::ndarray_interp::interp1d::Linear;
    let x = Array1::from(vec![0.0, 1.0, 2.5, 4.0]);
    let data = Array2::from_shape_fn((4, 3), |(i, j)| (i * 3 + j) as f64 * 0.75 - 2.0);
    let interp = Interp1DBuilder::new(data).x(x).strategy(Linear::new()).build().unwrap();
    let vals: Vec<f64> = (0..12).map(|k| (k as f64 * 0.37) % 4.0).collect();
    let q1 = Array1::from(vals.clone());
    let fast = interp.interp_array(&q1).unwrap(); // (12, 3)
    let fast_bits: Vec<u64> = fast.iter().map(|v| v.to_bits()).collect();
    let q3 = q1.clone().into_shape_with_order((2, 2, 3)).unwrap();
    let mut id = 9_100_000u64;
    let mut run = |name: &str, fill: &mut dyn FnMut(&mut Array4<f64>) -> Result<Vec<u64>, String>, ev: &mut Ev| {
        id += 1;
        let mut inst = Inst { ev, name: format!("Interp1D<f64, Ix2, owned, Linear> interp_array_into(Ix3) into {name}"), id };
        inst.begin();
        let mut big = Array4::<f64>::from_elem((4, 6, 5, 7), -777.0);
        match guard(|| fill(&mut big)) {
            Ok(Ok(bits)) => inst.compare("Ix1 (allocating) vs Ix3 into the buffer", &fast_bits, &bits),
            Ok(Err(e)) => inst.failed("interp_array_into", &e),
            Err(p) => inst.failed("interp_array_into", &p),
        }
    };
    run("a region of interest (window on query axis 1)", &mut |big| {
        let mut b = big.slice_mut(s![..2, 1..3, ..3, ..3]);
        interp.interp_array_into(&q3, b.view_mut()).map_err(|e| e.to_string())?;
        Ok(b.iter().map(|v| v.to_bits()).collect())
    }, ev);
    run("a buffer stepped along query axis 0", &mut |big| {
        let mut b = big.slice_mut(s![..4;2, ..2, ..3, ..3]);
        interp.interp_array_into(&q3, b.view_mut()).map_err(|e| e.to_string())?;
        Ok(b.iter().map(|v| v.to_bits()).collect())
    }, ev);
    run("a buffer reversed along query axis 0", &mut |big| {
        let mut b = big.slice_mut(s![..2;-1, ..2, ..3, ..3]);
        interp.interp_array_into(&q3, b.view_mut()).map_err(|e| e.to_string())?;
        Ok(b.iter().map(|v| v.to_bits()).collect())
    }, ev);
    run("a window on the lane axis only", &mut |big| {
        let mut b = big.slice_mut(s![..2, ..2, ..3, 2..5]);
        interp.interp_array_into(&q3, b.view_mut()).map_err(|e| e.to_string())?;
        Ok(b.iter().map(|v| v.to_bits()).collect())
    }, ev);
    run("a dynamic-dimensional region of interest (IxDyn query)", &mut |big| {
        let mut b = big.slice_mut(s![1..3, ..2, 1..4, ..3]).into_dyn();
        interp.interp_array_into(&q3.clone().into_dyn(), b.view_mut()).map_err(|e| e.to_string())?;
        Ok(b.iter().map(|v| v.to_bits()).collect())
    }, ev);
    run("a permuted buffer (query axes stored in another order)", &mut |big| {
        let mut b = big.slice_mut(s![..2, ..2, ..3, ..3]).permuted_axes([1, 0, 2, 3]);
        // b has shape (2, 2, 3, 3) again, with the first two strides exchanged
        interp.interp_array_into(&q3, b.view_mut()).map_err(|e| e.to_string())?;
        Ok(b.iter().map(|v| v.to_bits()).collect())
    }, ev);
    // buffers in which only *some* neighbouring query axes are contiguous with each other: the
    // last two query axes and the lanes span the whole allocation, the first query axis does not
    let mut run2 = |name: &str, fill: &mut dyn FnMut(&mut Array4<f64>) -> Result<Vec<u64>, String>, ev: &mut Ev| {
        id += 1;
        let mut inst = Inst { ev, name: format!("Interp1D<f64, Ix2, owned, Linear> interp_array_into(Ix3) into {name}"), id };
        inst.begin();
        let mut big = Array4::<f64>::from_elem((5, 2, 3, 3), -777.0);
        match guard(|| fill(&mut big)) {
            Ok(Ok(bits)) => inst.compare("Ix1 (allocating) vs Ix3 into the buffer", &fast_bits, &bits),
            Ok(Err(e)) => inst.failed("interp_array_into", &e),
            Err(p) => inst.failed("interp_array_into", &p),
        }
    };
    run2("every second slab of a larger output (only the first query axis is stepped)", &mut |big| {
        let mut b = big.slice_mut(s![..4;2, .., .., ..]);
        interp.interp_array_into(&q3, b.view_mut()).map_err(|e| e.to_string())?;
        Ok(b.iter().map(|v| v.to_bits()).collect())
    }, ev);
    run2("two slabs in reverse order (only the first query axis is reversed)", &mut |big| {
        let mut b = big.slice_mut(s![1..3;-1, .., .., ..]);
        interp.interp_array_into(&q3, b.view_mut()).map_err(|e| e.to_string())?;
        Ok(b.iter().map(|v| v.to_bits()).collect())
    }, ev);
    run2("slabs 0 and 3 of a larger output (dynamic dimension)", &mut |big| {
        let mut b = big.slice_mut(s![..4;3, .., .., ..]).into_dyn();
        interp.interp_array_into(&q3.clone().into_dyn(), b.view_mut()).map_err(|e| e.to_string())?;
        Ok(b.iter().map(|v| v.to_bits()).collect())
    }, ev);
    let _ = (ArrayD::<f64>::zeros(IxDyn(&[1])),);
    ev.add("into_buffer_instantiations", 9);
}

fn main() {
    let args = Args::parse("C19");
    let stratum: u32 = args.extra_u64("stratum").unwrap_or(0) as u32;
    let elems: Vec<String> = args
        .extra
        .get("elems")
        .map(|s| s.split(',').map(|x| x.to_string()).collect())
        .unwrap_or_else(|| vec!["f64".into(), "f32".into(), "i32".into(), "i64".into()]);
    let mut ev = Ev::new();
    ev.max_samples = 12;
    for e in &elems {
        match e.as_str() {
            "f64" => x19a::run(&mut ev, stratum, args.shard, args.shards),
            "f32" => x19b::run(&mut ev, stratum, args.shard, args.shards),
            "i32" => x19c::run(&mut ev, stratum, args.shard, args.shards),
            "i64" => x19d::run(&mut ev, stratum, args.shard, args.shards),
            "none" => {}
            other => panic!("unknown element type {other}"),
        }
    }
    if args.shard == 0 && !elems.iter().any(|e| e == "none") {
        user_strategies(&mut ev);
        general_path_into_buffers(&mut ev);
    }
    let insts: Vec<String> = ev.hist.get("instantiation").map(|h| h.keys().cloned().collect()).unwrap_or_default();
    for name in insts.iter().step_by(insts.len() / 10 + 1) {
        ev.samples.push(J::obj().set("instantiation", name.as_str()).set("query_types", "Ix0, Ix1 (fast path), Ix2, Ix3, IxDyn(rank 1), per-element interp"));
    }
    let full = stratum == 0 && elems.len() == 4 && args.shards == 1;
    ev.add("instantiations", insts.len() as u64);
    let crossed = insts.iter().filter(|n| n.contains(" query ") || n.contains(" ys ")).count() as u64;
    ev.add("crossed_storage_instantiations", crossed);
    ev.add("query_type_instantiations", (insts.len() as u64 - crossed) * 5 + crossed * 2);
    ev.finish(
        &args,
        "every instantiation: {Interp1D/Linear, Interp2D/Bilinear} x {f64, f32, i32, i64} x data \
         dimension type {Ix1..Ix6, IxDyn} (2-D: Ix2..Ix6, IxDyn) x storage {owned, view, shared} (data, \
         axes and query together), plus CubicSpline for f64/f32; each queried with query dimension \
         types Ix0, Ix1, Ix2, Ix3 and IxDyn(rank 1) and per element; plus crossed storage kinds: all \
         six ordered pairs of different kinds for (data, query) in 1-D and (xs, ys) in 2-D, every data \
         dimension type and element type (Ix1 fast path vs Ix2 general path vs per element). Every instantiation is non-trivial \
         (it exercises the TypeId test with its own type parameters); distinct = distinct instantiations.",
        J::obj()
            .set("exhaustive_done", full)
            .set("hook_enabled", vh::c19::hook_enabled())
            .set("instantiation_list", J::arr(insts)),
    );
}
