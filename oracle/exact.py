"""Exact-arithmetic reference models for the offline checker.

Everything is computed with fractions.Fraction over the exact values of the float bit
patterns found in the event log. None of this re-implements the crate's algorithms:
  * line / bilinear blend: closed forms,
  * cubic spline: second-derivative ("moment") formulation solved by exact sparse
    Gaussian elimination (the crate uses the slope formulation + Thomas + a Hermite-type
    evaluation),
  * model-free piecewise-cubic / C2 / boundary-residual checks by exact Lagrange fits
    of the *returned* values.
"""
from fractions import Fraction as F
from decimal import Decimal as D, getcontext
import bisect
import struct

# Long axes (several hundred knots and more) are solved in 120-digit decimal arithmetic instead
# of exact rationals (whose numerators grow with every elimination step): the reference is then
# accurate to ~1e-100 relative, i.e. still exact for every purpose of the 1e-12-sized tolerances.
getcontext().prec = 160

U = {"f64": F(1, 2 ** 53), "f32": F(1, 2 ** 24)}
# smallest positive (subnormal) number: the absolute rounding unit once a quantity underflows
UF = {"f64": F(1, 2 ** 1074), "f32": F(1, 2 ** 149)}


def unit(ty, N):
    """unit roundoff as a number of type N (Fraction or Decimal)"""
    u = U[ty]
    return N(u.numerator) / N(u.denominator)


def round_to(ty, frac):
    """the float of type ty nearest to the Fraction frac (ties to even), as a Fraction;
    OverflowError beyond the finite range. Subnormal results are not rounded (returned exactly)."""
    if frac == 0:
        return frac
    if ty == "f64":
        return F(float(frac))
    mant = 24
    n, m = abs(frac.numerator), frac.denominator
    s = n.bit_length() - m.bit_length() - mant
    # scaled = |frac| / 2^s lies in [2^(mant-1), 2^(mant+1)); bring it into [2^(mant-1), 2^mant)
    def scaled(sh):
        return F(n, m) / (F(2) ** sh)
    while scaled(s) >= 2 ** mant:
        s += 1
    while scaled(s) < 2 ** (mant - 1):
        s -= 1
    if s < -149:
        return frac
    q = scaled(s)
    k = q.numerator // q.denominator
    rem = q - k
    if rem > F(1, 2) or (rem == F(1, 2) and k % 2 == 1):
        k += 1
    val = F(k) * (F(2) ** s)
    if val >= F(2) ** 128:
        raise OverflowError()
    return val if frac > 0 else -val


def floor_div(a, b):
    """floor(a / b) as an int, for Fraction and Decimal alike (b > 0)"""
    q = a / b
    k = int(q)  # truncates towards zero
    if q < 0 and q != k:
        k -= 1
    return k


def dec(h, ty):
    if ty == "f64":
        return struct.unpack(">d", bytes.fromhex(h.rjust(16, "0")))[0]
    return struct.unpack(">f", bytes.fromhex(h.rjust(8, "0")))[0]


def decs(hs, ty):
    return [dec(h, ty) for h in hs]


def is_finite(v):
    return v == v and v not in (float("inf"), float("-inf"))


def bracket(x, q):
    """index i <= n-2 with x[i] <= q < x[i+1]; end intervals outside the range"""
    i = bisect.bisect_right(x, q) - 1
    return min(max(i, 0), len(x) - 2)


# ----------------------------------------------------------------------------- linear

def line_exact(x, y, q):
    """(exact value, Y, t) of the line through the bracketing points"""
    i = bracket(x, q)
    x1, x2, y1, y2, qq = F(x[i]), F(x[i + 1]), F(y[i]), F(y[i + 1]), F(q)
    t = (qq - x1) / (x2 - x1)
    return y1 + (y2 - y1) * t, max(abs(y1), abs(y2)), t, abs(qq - x1)


def line_tol(ty, Y, t, dq=0, ulps=16):
    """dq = |q - x1|: when the slope (y2-y1)/(x2-x1) underflows it is only known to one
    subnormal unit, and that absolute error is multiplied by dq (gradual underflow is ordinary
    rounding, not a defect)"""
    amp = 1
    if t < 0 or t > 1:
        amp = 1 + 2 * max(abs(t), abs(1 - t))
    return ulps * 2 * U[ty] * Y * amp + ulps * UF[ty] * (1 + dq)


# --------------------------------------------------------------------------- bilinear

def bilinear_exact(x, y, z, qx, qy):
    """z[i][j] floats; returns (exact, Z, tx, ty)"""
    i = bracket(x, qx)
    j = bracket(y, qy)
    x1, x2, y1, y2 = F(x[i]), F(x[i + 1]), F(y[j]), F(y[j + 1])
    z11, z12, z21, z22 = F(z[i][j]), F(z[i][j + 1]), F(z[i + 1][j]), F(z[i + 1][j + 1])
    tx = (F(qx) - x1) / (x2 - x1)
    ty_ = (F(qy) - y1) / (y2 - y1)
    v = (z11 * (1 - tx) * (1 - ty_) + z21 * tx * (1 - ty_)
         + z12 * (1 - tx) * ty_ + z22 * tx * ty_)
    Z = max(abs(z11), abs(z12), abs(z21), abs(z22))
    return v, Z, tx, ty_, abs(F(qx) - x1), abs(F(qy) - y1)


def bilinear_tol(ty, Z, tx, ty_, dqx=0, dqy=0, ulps=64):
    ax = 1 if 0 <= tx <= 1 else 1 + 2 * max(abs(tx), abs(1 - tx))
    ay = 1 if 0 <= ty_ <= 1 else 1 + 2 * max(abs(ty_), abs(1 - ty_))
    # underflowing slopes: one subnormal unit times the distance from the lower knot (see line_tol)
    return ulps * 2 * U[ty] * Z * ax * ay + ulps * UF[ty] * (1 + dqx * ay + dqy)


# ----------------------------------------------------------------------------- spline

class Singular(Exception):
    pass


def solve_sparse(rows, rhs):
    """exact Gaussian elimination; rows: list of dict col->Fraction. Returns list."""
    n = len(rows)
    rows = [dict(r) for r in rows]
    rhs = list(rhs)
    order = list(range(n))  # row permutation
    for k in range(n):
        piv = None
        for r in range(k, n):
            v = rows[order[r]].get(k)
            if v:
                piv = r
                break
        if piv is None:
            raise Singular()
        order[k], order[piv] = order[piv], order[k]
        pr = rows[order[k]]
        pv = pr[k]
        for r in range(k + 1, n):
            rr = rows[order[r]]
            v = rr.get(k)
            if v:
                f = v / pv
                del rr[k]
                for c, a in pr.items():
                    if c == k:
                        continue
                    nv = rr.get(c, 0) - f * a
                    if nv:
                        rr[c] = nv
                    elif c in rr:
                        del rr[c]
                rhs[order[r]] -= f * rhs[order[k]]
    sol = [rhs[0] * 0] * n
    for k in range(n - 1, -1, -1):
        pr = rows[order[k]]
        s = rhs[order[k]]
        for c, a in pr.items():
            if c != k:
                s -= a * sol[c]
        sol[k] = s / pr[k]
    return sol


def spline_moments(x, y, bc):
    """x, y: lists of Fractions; bc = "Periodic" or ((kind, val), (kind, val)) with kind in
    NotAKnot / Natural / Clamped / FirstDeriv / SecondDeriv (val Fraction or None).
    Returns the list of second derivatives M_i at the knots."""
    n = len(x)
    N = type(x[0])
    h = [x[i + 1] - x[i] for i in range(n - 1)]
    s = [(y[i + 1] - y[i]) / h[i] for i in range(n - 1)]
    interior_rows = []
    interior_rhs = []
    for i in range(1, n - 1):
        interior_rows.append({i - 1: h[i - 1], i: 2 * (h[i - 1] + h[i]), i + 1: h[i]})
        interior_rhs.append(6 * (s[i] - s[i - 1]))
    # row order: left condition, interior rows, right condition. In exact arithmetic the order
    # is irrelevant; in the decimal arithmetic used for long axes this (diagonally dominant)
    # order keeps the elimination stable.
    if bc == "Periodic":
        first = ({0: N(1), n - 1: N(-1)}, N(0))
        # S'(x0+) = S'(x_{n-1}-)
        r = {}
        r[0] = r.get(0, 0) - 2 * h[0]
        r[1] = r.get(1, 0) - h[0]
        r[n - 2] = r.get(n - 2, 0) - h[n - 2]
        r[n - 1] = r.get(n - 1, 0) - 2 * h[n - 2]
        last = (r, 6 * (s[n - 2] - s[0]))
        rows = [first[0]] + interior_rows + [last[0]]
        rhs = [first[1]] + interior_rhs + [last[1]]
        return checked_solve(rows, rhs)
    (lk, lv), (rk, rv) = bc
    if n == 3 and lk == "NotAKnot" and rk == "NotAKnot":
        m = 2 * (s[1] - s[0]) / (h[0] + h[1])
        return [m, m, m]
    # left
    if lk in ("Natural", "SecondDeriv"):
        first = ({0: N(1)}, N(0) if lk == "Natural" else lv)
    elif lk in ("Clamped", "FirstDeriv"):
        v = N(0) if lk == "Clamped" else lv
        first = ({0: 2 * h[0], 1: h[0]}, 6 * (s[0] - v))
    elif lk == "NotAKnot":
        first = ({0: h[1], 1: -(h[0] + h[1]), 2: h[0]}, N(0))
    else:
        raise ValueError(lk)
    # right
    if rk in ("Natural", "SecondDeriv"):
        last = ({n - 1: N(1)}, N(0) if rk == "Natural" else rv)
    elif rk in ("Clamped", "FirstDeriv"):
        v = N(0) if rk == "Clamped" else rv
        last = ({n - 2: h[n - 2], n - 1: 2 * h[n - 2]}, 6 * (v - s[n - 2]))
    elif rk == "NotAKnot":
        last = ({n - 3: h[n - 2], n - 2: -(h[n - 3] + h[n - 2]), n - 1: h[n - 3]}, N(0))
    else:
        raise ValueError(rk)
    rows = [first[0]] + interior_rows + [last[0]]
    rhs = [first[1]] + interior_rhs + [last[1]]
    return checked_solve(rows, rhs)


def checked_solve(rows, rhs):
    """solve and (for inexact number types) verify the residual; an inaccurate reference is
    reported as Singular, i.e. the case becomes inconclusive, never a verdict"""
    sol = solve_sparse(rows, rhs)
    if isinstance(rhs[0], F):
        return sol
    for r, b in zip(rows, rhs):
        acc = -b
        mag = abs(b)
        for c, a in r.items():
            acc += a * sol[c]
            mag += abs(a * sol[c])
        if mag != 0 and abs(acc) > mag * D(10) ** -80:
            raise Singular()
    return sol


def spline_eval(x, y, M, i, q):
    """value of the cubic piece of interval i at q (any q: polynomial continuation)"""
    h = x[i + 1] - x[i]
    a = x[i + 1] - q
    b = q - x[i]
    return (M[i] * a ** 3 + M[i + 1] * b ** 3) / (6 * h) \
        + (y[i] / h - M[i] * h / 6) * a + (y[i + 1] / h - M[i + 1] * h / 6) * b


def spline_slope_bound(x, y, M):
    """exact upper bound of |S'| over the whole range"""
    n = len(x)
    L = x[0] * 0
    for i in range(n - 1):
        h = x[i + 1] - x[i]
        s = (y[i + 1] - y[i]) / h
        d0 = s - h * (2 * M[i] + M[i + 1]) / 6
        d1 = s + h * (M[i] + 2 * M[i + 1]) / 6
        L = max(L, max(abs(d0), abs(d1)) + abs(M[i + 1] - M[i]) * h / 8)
    return L


C_SPLINE = 2 ** 13


def spline_scale(ty, x, y, M, bc):
    """(u * (1 + rho) * G): the natural unit of rounding error of a spline value"""
    n = len(x)
    hs = [x[i + 1] - x[i] for i in range(n - 1)]
    hmax, hmin = max(hs), min(hs)
    rho = hmax / hmin
    G = max(abs(v) for v in y) + max(abs(m) for m in M) * hmax * hmax
    if bc != "Periodic":
        for (k, v) in bc:
            if k == "FirstDeriv":
                G += abs(v) * hmax
            elif k == "SecondDeriv":
                G += abs(v) * hmax * hmax
    return unit(ty, type(x[0])) * (1 + rho) * G


def t_amp(x, i, q):
    h = x[i + 1] - x[i]
    t = (q - x[i]) / h
    m = max(1, abs(t), abs(1 - t))
    return m ** 3


# ------------------------------------------------------------------ Lagrange utilities

def lagrange_weights(a, z, deriv):
    """weights w_j with sum_j w_j v_j = d^deriv/dx^deriv of the cubic through (a_j, v_j)
    at z, for 4 abscissae a (Fractions), deriv in 0..3"""
    n = len(a)
    assert n == 4
    w = []
    for j in range(n):
        others = [a[m] for m in range(n) if m != j]
        den = type(z)(1)
        for o in others:
            den *= (a[j] - o)
        # numerator polynomial prod (x - o) for o in others: coefficients
        # (x-o0)(x-o1)(x-o2) = x^3 - e1 x^2 + e2 x - e3
        e1 = others[0] + others[1] + others[2]
        e2 = others[0] * others[1] + others[0] * others[2] + others[1] * others[2]
        e3 = others[0] * others[1] * others[2]
        if deriv == 0:
            num = z ** 3 - e1 * z ** 2 + e2 * z - e3
        elif deriv == 1:
            num = 3 * z ** 2 - 2 * e1 * z + e2
        elif deriv == 2:
            num = 6 * z - 2 * e1
        else:
            num = type(z)(6)
        w.append(num / den)
    return w
