//! C02 - the cubic spline passes through the data and is a C2 piecewise cubic.
//! Model-free: the offline checker fits exact cubics to the *returned* samples of each
//! interval (checks "knots", "c2"); the reference spline is not used.

use vh::report::*;
use vh::work::spline_case;
use vh::*;

fn main() {
    let args = Args::parse("C02");
    let n = args.budget(400, 60000);
    let ev = run_sharded(&args, n, |case, ev, log| {
        if case % 4 == 3 {
            spline_case::<f32>("C02", &["knots", "c2"], case, &args, ev, log)
        } else {
            spline_case::<f64>("C02", &["knots", "c2"], case, &args, ev, log)
        }
    });
    ev.finish(
        &args,
        "random spline data sets: n=3..40, smooth axis classes with mesh ratio <= 64, all boundary \
         selections (half of the cases enumerate the 25 ordered (left,right) pairs), 0..3 trailing \
         axes, f64/f32; per interval both knots + quarter points + neighbouring floats. \
         Non-trivial = non-uniform axis and n >= 4; distinct by hash of axis, data, boundary.",
        J::obj(),
    );
}
