//! Run arguments, evidence accumulation, violation records and the event log.
//!
//! A driver never prints the final `VIOLATION` line itself: it appends violation
//! records (signature + explicit replay data) to `<out>/violations.jsonl` and coverage
//! to `<out>/coverage.json`; the orchestrator (`/verif/check`) adds the offline exact
//! checker's findings, consults the known-findings file and prints the verdict lines.

use crate::json::J;
use std::collections::{BTreeMap, HashSet};
use std::fs::{self, File};
use std::io::{BufWriter, Write};
use std::path::{Path, PathBuf};

#[derive(Clone, Debug)]
pub struct Args {
    pub prop: String,
    pub tier: String,
    pub seed: u64,
    pub out: PathBuf,
    /// run only this case id (replay)
    pub only: Option<u64>,
    pub threads: usize,
    /// multiplies case budgets (sanitizer legs use < 1)
    pub scale: f64,
    pub leg: String,
    /// process-level sharding (sanitizer legs run several processes): this process handles
    /// the case ids with id % shards == shard
    pub shard: u64,
    pub shards: u64,
    pub extra: BTreeMap<String, String>,
}

impl Args {
    pub fn parse(prop: &str) -> Args {
        let mut a = Args {
            prop: prop.to_string(),
            tier: "quick".into(),
            seed: 1,
            out: PathBuf::from("/tmp/vh-out"),
            only: None,
            threads: 1,
            scale: 1.0,
            leg: "native".into(),
            shard: 0,
            shards: 1,
            extra: BTreeMap::new(),
        };
        let argv: Vec<String> = std::env::args().skip(1).collect();
        let mut i = 0;
        while i < argv.len() {
            let k = argv[i].clone();
            let v = argv.get(i + 1).cloned().unwrap_or_default();
            match k.as_str() {
                "--tier" => a.tier = v,
                "--seed" => a.seed = v.parse().expect("--seed"),
                "--out" => a.out = PathBuf::from(v),
                "--only" => a.only = Some(v.parse().expect("--only")),
                "--threads" => a.threads = v.parse().expect("--threads"),
                "--scale" => a.scale = v.parse().expect("--scale"),
                "--leg" => a.leg = v,
                "--shard" => a.shard = v.parse().expect("--shard"),
                "--shards" => a.shards = v.parse::<u64>().expect("--shards").max(1),
                other => {
                    if let Some(name) = other.strip_prefix("--") {
                        a.extra.insert(name.to_string(), v);
                    } else {
                        panic!("unknown argument {other}");
                    }
                }
            }
            i += 2;
        }
        fs::create_dir_all(&a.out).expect("create out dir");
        a
    }

    pub fn thorough(&self) -> bool {
        self.tier == "thorough"
    }

    /// case budget: `quick` or `thorough` count scaled by --scale (at least 1)
    pub fn budget(&self, quick: u64, thorough: u64) -> u64 {
        let b = if self.thorough() { thorough } else { quick };
        ((b as f64 * self.scale).ceil() as u64).max(1)
    }

    /// does this process handle case `id`?
    pub fn mine(&self, id: u64) -> bool {
        id % self.shards == self.shard
    }

    /// run the driver's concrete (non-case-indexed) blocks? In a normal run on shard 0; in a
    /// replay when the recorded id lies in the id range reserved for such blocks
    pub fn blocks(&self) -> bool {
        self.shard == 0 && self.only.map_or(true, |o| (7_000_000..10_000_000).contains(&o))
    }

    pub fn extra_u64(&self, k: &str) -> Option<u64> {
        self.extra.get(k).and_then(|v| v.parse().ok())
    }
}

/// evidence accumulator (one per thread, merged at the end)
#[derive(Debug, Default)]
pub struct Ev {
    pub evaluations: u64,
    pub distinct: HashSet<u64>,
    pub nontrivial: HashSet<u64>,
    pub hist: BTreeMap<String, BTreeMap<String, u64>>,
    pub counters: BTreeMap<String, u64>,
    pub maxima: BTreeMap<String, f64>,
    pub samples: Vec<J>,
    pub violations: Vec<J>,
    pub notes: Vec<String>,
    pub max_samples: usize,
    pub max_violations: usize,
}

impl Ev {
    pub fn new() -> Ev {
        Ev {
            max_samples: 6,
            max_violations: 25,
            ..Default::default()
        }
    }

    /// register one evaluated case
    pub fn case(&mut self, descriptor_hash: u64, nontrivial: bool) {
        self.evaluations += 1;
        self.distinct.insert(descriptor_hash);
        if nontrivial {
            self.nontrivial.insert(descriptor_hash);
        }
    }

    pub fn count(&mut self, hist: &str, key: impl AsRef<str>) {
        *self
            .hist
            .entry(hist.to_string())
            .or_default()
            .entry(key.as_ref().to_string())
            .or_default() += 1;
    }

    pub fn add(&mut self, counter: &str, n: u64) {
        *self.counters.entry(counter.to_string()).or_default() += n;
    }

    pub fn get(&self, counter: &str) -> u64 {
        self.counters.get(counter).copied().unwrap_or(0)
    }

    pub fn hist_get(&self, hist: &str, key: &str) -> u64 {
        self.hist
            .get(hist)
            .and_then(|h| h.get(key))
            .copied()
            .unwrap_or(0)
    }

    pub fn max(&mut self, name: &str, v: f64) {
        let e = self.maxima.entry(name.to_string()).or_insert(f64::MIN);
        if v > *e {
            *e = v;
        }
    }

    pub fn sample(&mut self, j: impl FnOnce() -> J) {
        if self.samples.len() < self.max_samples {
            self.samples.push(j());
        }
    }

    /// record a violation. `sig` identifies the failing call site / input class (used to
    /// match known findings), `replay` holds everything needed to re-execute the case.
    pub fn violation(&mut self, sig: &str, what: &str, case_id: u64, replay: J) {
        self.add("violations", 1);
        if self.violations.len() < self.max_violations {
            self.violations.push(
                J::obj()
                    .set("sig", sig)
                    .set("what", what)
                    .set("case", case_id)
                    .set("replay", replay),
            );
        }
    }

    pub fn merge(&mut self, o: Ev) {
        self.evaluations += o.evaluations;
        self.distinct.extend(o.distinct);
        self.nontrivial.extend(o.nontrivial);
        for (h, m) in o.hist {
            let e = self.hist.entry(h).or_default();
            for (k, v) in m {
                *e.entry(k).or_default() += v;
            }
        }
        for (k, v) in o.counters {
            *self.counters.entry(k).or_default() += v;
        }
        for (k, v) in o.maxima {
            self.max(&k, v);
        }
        for s in o.samples {
            if self.samples.len() < self.max_samples {
                self.samples.push(s);
            }
        }
        for v in o.violations {
            if self.violations.len() < self.max_violations {
                self.violations.push(v);
            }
        }
        self.notes.extend(o.notes);
    }

    /// write coverage.json and violations.jsonl into the out dir
    pub fn finish(&self, args: &Args, rule: &str, extra: J) {
        let mut cov = J::obj()
            .set("evaluations", self.evaluations)
            .set("distinct", self.distinct.len())
            .set("distinct_nontrivial", self.nontrivial.len())
            .set("rule", rule)
            .set("samples", J::Arr(self.samples.clone()))
            .set(
                "histograms",
                J::Obj(
                    self.hist
                        .iter()
                        .map(|(k, v)| (k.clone(), J::from_map(v)))
                        .collect(),
                ),
            )
            .set("counters", J::from_map(&self.counters))
            .set(
                "maxima",
                J::Obj(
                    self.maxima
                        .iter()
                        .map(|(k, v)| (k.clone(), J::Num(*v)))
                        .collect(),
                ),
            )
            .set("notes", J::arr(self.notes.clone()))
            .set("leg", args.leg.as_str());
        if let J::Obj(items) = extra {
            for (k, v) in items {
                cov.put(&k, v);
            }
        }
        let root = J::obj()
            .set("property_id", args.prop.as_str())
            .set("tier", args.tier.as_str())
            .set("seed", args.seed)
            .set("coverage", cov)
            .set("violations", self.get("violations"));
        fs::write(args.out.join("coverage.json"), root.dump()).expect("write coverage");
        let mut f = BufWriter::new(File::create(args.out.join("violations.jsonl")).unwrap());
        for v in &self.violations {
            writeln!(f, "{}", v.dump()).unwrap();
        }
        f.flush().unwrap();
        println!(
            "[{}:{}] evaluations={} distinct={} nontrivial={} violations={}",
            args.prop,
            args.leg,
            self.evaluations,
            self.distinct.len(),
            self.nontrivial.len(),
            self.get("violations")
        );
    }
}

/// append-only event log consumed by the offline exact checker
pub struct EventLog {
    w: BufWriter<File>,
    pub n: u64,
}

impl EventLog {
    pub fn create(dir: &Path, shard: usize) -> EventLog {
        let p = dir.join(format!("log-{shard:03}.jsonl"));
        EventLog {
            // append: a driver may run several sharded phases into the same (fresh) out dir
            w: BufWriter::new(
                std::fs::OpenOptions::new()
                    .create(true)
                    .append(true)
                    .open(p)
                    .expect("create event log"),
            ),
            n: 0,
        }
    }
    pub fn push(&mut self, j: &J) {
        let mut s = String::with_capacity(1024);
        j.write(&mut s);
        s.push('\n');
        self.w.write_all(s.as_bytes()).expect("write event log");
        self.n += 1;
    }
    pub fn close(mut self) {
        self.w.flush().expect("flush event log");
    }
}

/// run `work(thread_index, &mut Ev, &mut EventLog)` on `threads` threads over the case ids
/// `0..n` (case i goes to thread i % threads) and merge the results
pub fn run_sharded(
    args: &Args,
    n: u64,
    work: impl Fn(u64, &mut Ev, &mut EventLog) + Sync,
) -> Ev {
    let threads = args.threads.max(1);
    let (shard, shards) = (args.shard, args.shards);
    let mut total = Ev::new();
    if let Some(only) = args.only {
        let mut log = EventLog::create(&args.out, 0);
        work(only, &mut total, &mut log);
        log.close();
        return total;
    }
    let results: Vec<Ev> = std::thread::scope(|s| {
        let handles: Vec<_> = (0..threads)
            .map(|t| {
                let work = &work;
                let out = args.out.clone();
                s.spawn(move || {
                    let mut ev = Ev::new();
                    let mut log = EventLog::create(&out, t);
                    let mut i = t as u64;
                    while i < n {
                        if i % shards == shard {
                            work(i, &mut ev, &mut log);
                        }
                        i += threads as u64;
                    }
                    log.close();
                    ev
                })
            })
            .collect();
        handles
            .into_iter()
            .map(|h| h.join().expect("worker thread panicked (harness error)"))
            .collect()
    });
    for r in results {
        total.merge(r);
    }
    total
}
