//! instantiations of the interpolator zoo: spline / f32 (see vh-core::dynapi)
vh_core::def_with1!(with, f32, spline, [oo lean] [oo lean] [oo lean] [oo lean] [oo lean] [oo lean] [oo lean]);
