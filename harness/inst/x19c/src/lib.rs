//! C19 instantiations of the rank-1 fast path for element type i32
vh_core::c19_all!(run, i32, int);
