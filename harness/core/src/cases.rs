//! Case generators shared by several drivers (1-D linear / spline specs, 2-D grids).

use crate::flt::Flt;
use crate::gen::*;
use crate::rng::Rng;
use crate::spec::*;
use ndarray::{Array1, ArrayD, Axis, IxDyn};

#[derive(Clone, Debug)]
pub struct Labels {
    pub axis: String,
    pub data: String,
    pub n_class: String,
    pub boundary: String,
    pub lanes: String,
    pub uniform: bool,
}

pub fn n_class(n: usize, min: usize) -> String {
    if n == min {
        "min".into()
    } else if n == min + 1 {
        "min+1".into()
    } else if n <= 10 {
        "5-10".into()
    } else {
        ">10".into()
    }
}

/// occasionally (2.5 %) a long axis: lengths around powers of two and a few hundred points
pub fn pick_n_long(rng: &mut Rng, min: usize, max: usize, long_max: usize) -> usize {
    if long_max > max && rng.chance(0.025) {
        let cands = [31usize, 32, 33, 63, 64, 65, 100, 127, 128, 129, 160, 255, 256, 257, 300, 513, 1000, 1025];
        let ok: Vec<usize> = cands.iter().copied().filter(|&c| c <= long_max && c >= min).collect();
        if !ok.is_empty() {
            return *rng.pick(&ok);
        }
    }
    pick_n(rng, min, max)
}

pub fn pick_n(rng: &mut Rng, min: usize, max: usize) -> usize {
    match rng.below(10) {
        0 | 1 => min,
        2 | 3 => min + 1,
        4..=7 => rng.range((min + 2).min(max), 10.min(max)),
        _ => rng.range(11.min(max), max),
    }
}

/// all 25 ordered pairs of single-end conditions, index 0..25
pub fn sb_pair_index(i: usize) -> (usize, usize) {
    (i % 25 / 5, i % 5)
}

pub struct SplineOpts {
    pub allow_periodic: bool,
    pub extrapolate: bool,
    pub max_n: usize,
    pub max_lane_rank: usize,
    pub allow_zero_lanes: bool,
    /// force this ordered boundary pair (l, r) on every lane (index into the 5 conditions)
    pub force_pair: Option<(usize, usize)>,
    /// force this number of points (used for the few very long axes of every run)
    pub force_n: Option<usize>,
}

impl Default for SplineOpts {
    fn default() -> Self {
        SplineOpts {
            allow_periodic: true,
            extrapolate: false,
            max_n: 40,
            max_lane_rank: 3,
            allow_zero_lanes: false,
            force_pair: None,
            force_n: None,
        }
    }
}

/// typical derivative magnitudes for boundary values: (|y|/h, |y|/h^2)
pub fn deriv_scales<T: Flt>(x: &[T], data: &ArrayD<T>) -> (f64, f64) {
    let ymax = data.iter().fold(0.0f64, |m, v| m.max(v.f().abs()));
    // all-zero (or denormally small) data: use unit scale so that derivative values stay ordinary
    let ymax = if ymax < 1e-30 { 1.0 } else { ymax };
    let span = (x[x.len() - 1].f() - x[0].f()).abs();
    let h = span / (x.len() - 1).max(1) as f64;
    (ymax / h, ymax / (h * h))
}

pub fn gen_spline_case<T: Flt>(rng: &mut Rng, o: &SplineOpts) -> (Spec1<T>, Labels) {
    let n = match o.force_n {
        Some(n) => n,
        None => pick_n_long(rng, 3, o.max_n.max(3), if o.max_n >= 40 { 160 } else { 0 }),
    };
    let use_default_axis = rng.chance(0.08);
    let class = *rng.pick(&AxisClass::SMOOTH);
    let x: Vec<T> = if use_default_axis {
        (0..n).map(|i| T::of(i as f64)).collect()
    } else {
        gen_axis(rng, n, class, &AxisOpts::spline())
    };
    let mut lanes = gen_lane_shape(rng, o.max_lane_rank, o.allow_zero_lanes);
    if n > 40 {
        // long axes: at most two lanes (the exact checker works per lane)
        while lanes.iter().product::<usize>() > 2 {
            let i = (0..lanes.len()).max_by_key(|&i| lanes[i]).unwrap();
            lanes[i] -= 1;
        }
    }
    let mut shape = vec![n];
    shape.extend(&lanes);
    let dclass = *rng.pick(&DataClass::ALL);
    let mut data = gen_data::<T>(rng, &shape, dclass, (-60, 60));
    let n_lanes: usize = lanes.iter().product();
    // now and then the data imitate a special case: every lane an exact (as far as the axis
    // values allow) polynomial of degree 0..3 in x
    let mut dname: String = dclass.name().into();
    if rng.chance(0.07) {
        let deg = rng.below(4);
        overlay_polynomial(rng, &x, &mut data, deg);
        dname = format!("polynomial-deg{deg}");
    }
    // ... or cancel exactly: every lane antisymmetric about the middle row (an odd function on
    // a symmetric grid), or lanes in mirrored pairs - the sum over the data is exactly zero
    if rng.chance(0.06) && n_lanes >= 1 {
        overlay_zero_sum(rng, &mut data);
        dname = "zero-sum".into();
    }
    // ... or all lanes are copies of lane 0 (handed over as a broadcast view where views are used)
    let broadcast = n_lanes > 1 && rng.chance(0.06);
    if broadcast {
        crate::dynapi::equalise_lanes(&mut data, 1);
    }
    let (d1, d2) = deriv_scales(&x, &data);

    let mut bshape = vec![1usize];
    bshape.extend(&lanes);
    let boundary: Bound<T> = if let Some((l, r)) = o.force_pair {
        let rows: Vec<RB<T>> = (0..n_lanes)
            .map(|_| {
                gen_mixed_pair(rng, l, r, d1, d2)
            })
            .collect();
        Bound::Individual(ArrayD::from_shape_vec(IxDyn(&bshape), rows).unwrap())
    } else {
        match rng.below(10) {
            0 => Bound::NotAKnot,
            1 => Bound::Natural,
            2 => Bound::Clamped,
            3 | 4 if o.allow_periodic => Bound::Periodic,
            _ => {
                let rows: Vec<RB<T>> =
                    (0..n_lanes).map(|_| gen_row_boundary(rng, d1, d2)).collect();
                Bound::Individual(ArrayD::from_shape_vec(IxDyn(&bshape), rows).unwrap())
            }
        }
    };
    // periodic data sets need equal end rows; now and then a non-periodic one has them too
    // (data that "looks periodic" must still get the boundary condition that was asked for)
    if matches!(boundary, Bound::Periodic) || rng.chance(0.06) {
        let first = data.index_axis(Axis(0), 0).to_owned();
        data.index_axis_mut(Axis(0), n - 1).assign(&first);
    }
    let bname = match &boundary {
        Bound::Individual(a) => {
            if a.is_empty() {
                "Individual(empty)".to_string()
            } else {
                format!("Individual[{}]", a.iter().next().unwrap().name())
            }
        }
        b => b.name(),
    };
    let labels = Labels {
        axis: if use_default_axis {
            "default-index".into()
        } else {
            class.name().into()
        },
        data: dname,
        n_class: n_class(n, 3),
        boundary: bname,
        lanes: format!("{:?}", lanes),
        uniform: is_uniform(&x),
    };
    let mut spec = Spec1::new(
        data,
        if use_default_axis {
            None
        } else {
            Some(Array1::from(x))
        },
        Strat1::Spline {
            extrapolate: o.extrapolate,
            boundary,
        },
    );
    spec.dynamic = rng.chance(0.2);
    random_layouts1(rng, &mut spec);
    if broadcast {
        spec.broadcast_lanes = true;
        spec.sto = if rng.chance(0.5) { StoCombo::VV } else { StoCombo::VO };
        if spec.x.is_none() {
            spec.sto = StoCombo::VO;
        }
    }
    (spec, labels)
}

/// replace about a fifth of the samples by special values: -0.0, +0.0, the infinities, NaN and
/// the largest finite magnitudes (for the bitwise monitors; the value monitors keep finite data)
pub fn sprinkle_specials<T: Flt>(rng: &mut Rng, data: &mut ArrayD<T>) -> usize {
    let specials = [
        T::of(-0.0),
        T::of(0.0),
        T::of(f64::INFINITY),
        T::of(f64::NEG_INFINITY),
        T::nan(),
        T::of(if T::MANT == 23 { f32::MAX as f64 } else { f64::MAX }),
        T::of(if T::MANT == 23 { f32::MIN as f64 } else { f64::MIN }),
    ];
    let mut n = 0;
    for v in data.iter_mut() {
        if rng.chance(0.2) {
            // -0.0 twice as often: the only special value ordinary data contain
            *v = if rng.chance(0.3) { specials[0] } else { specials[rng.below(specials.len())] };
            n += 1;
        }
    }
    n
}

/// make the data cancel exactly: rows mirrored with opposite sign about the middle (mode 0) or
/// odd lanes the negatives of even lanes (mode 1, needs >= 2 lanes)
pub fn overlay_zero_sum<T: Flt>(rng: &mut Rng, data: &mut ArrayD<T>) {
    let n = data.shape()[0];
    let lanes = data.len() / n.max(1);
    if lanes == 0 || n == 0 {
        return;
    }
    let mut flat: Vec<T> = data.iter().copied().collect();
    if lanes >= 2 && lanes % 2 == 0 && rng.chance(0.5) {
        for r in 0..n {
            for l in (0..lanes).step_by(2) {
                flat[r * lanes + l + 1] = T::of(0.0) - flat[r * lanes + l];
            }
        }
    } else {
        for r in 0..n / 2 {
            for l in 0..lanes {
                flat[(n - 1 - r) * lanes + l] = T::of(0.0) - flat[r * lanes + l];
            }
        }
        if n % 2 == 1 {
            for l in 0..lanes {
                flat[(n / 2) * lanes + l] = T::of(0.0);
            }
        }
    }
    *data = ArrayD::from_shape_vec(data.raw_dim(), flat).unwrap();
}

/// lane l becomes c0 + c1 x + .. + c_deg x^deg with small dyadic coefficients (evaluated in f64,
/// rounded to T; exact whenever the axis values are small dyadic numbers)
pub fn overlay_polynomial<T: Flt>(rng: &mut Rng, x: &[T], data: &mut ArrayD<T>, deg: usize) {
    let n = x.len();
    let lanes = data.len() / n.max(1);
    let scale = x.iter().fold(0.0f64, |m, v| m.max(v.f().abs())).max(1e-300);
    let flat: Vec<T> = (0..n * lanes)
        .map(|idx| {
            let (row, lane) = (idx / lanes.max(1), idx % lanes.max(1));
            let mut r = Rng::new(0x9e37 ^ (lane as u64).wrapping_mul(0x1234_5678_9abc_def1) ^ deg as u64);
            let c: Vec<f64> = (0..=deg).map(|_| (r.irange(-16, 16) as f64 + if r.chance(0.5) { 0.5 } else { 0.0 }) / 4.0).collect();
            // the polynomial in the scaled variable t = x / 2^e (so that values stay moderate)
            let e = scale.log2().ceil();
            let t = x[row].f() / 2f64.powf(e);
            let mut v = 0.0;
            for k in (0..=deg).rev() {
                v = v * t + c[k];
            }
            T::of(if deg >= 1 && c[deg] == 0.0 { v + t } else { v })
        })
        .collect();
    let _ = rng.next_u64();
    *data = ArrayD::from_shape_vec(data.raw_dim(), flat).unwrap();
}

/// with probability 0.3 the data (and an explicit axis) are stored with a random memory
/// layout (permuted memory order, steps, reversed axes, windows); logical contents unchanged
pub fn random_layouts1<T: Flt>(rng: &mut Rng, spec: &mut Spec1<T>) {
    if rng.chance(0.3) {
        spec.data_lay = crate::lay::Layout::random(rng, spec.data.ndim());
        if spec.x.is_some() && rng.chance(0.5) {
            spec.x_lay = crate::lay::Layout::random(rng, 1);
        }
    }
}

pub fn random_layouts2<T: Flt>(rng: &mut Rng, spec: &mut Spec2<T>) {
    if rng.chance(0.3) {
        spec.data_lay = crate::lay::Layout::random(rng, spec.data.ndim());
        if spec.x.is_some() && rng.chance(0.5) {
            spec.x_lay = crate::lay::Layout::random(rng, 1);
        }
        if spec.y.is_some() && rng.chance(0.5) {
            spec.y_lay = crate::lay::Layout::random(rng, 1);
        }
    }
}

pub struct LinearOpts {
    pub extrapolate: bool,
    pub max_n: usize,
    pub max_lane_rank: usize,
    pub allow_zero_lanes: bool,
    pub allow_cluster: bool,
    /// sometimes use magnitudes near the ends of the exponent range
    pub extreme_magnitudes: bool,
    /// exact number of points (overrides the random choice)
    pub force_n: Option<usize>,
}

impl Default for LinearOpts {
    fn default() -> Self {
        LinearOpts {
            extrapolate: false,
            max_n: 40,
            max_lane_rank: 3,
            allow_zero_lanes: false,
            allow_cluster: true,
            extreme_magnitudes: false,
            force_n: None,
        }
    }
}

/// scale so that the largest magnitude lies in [1/2, 1] (exact: a power of two)
pub fn normalise_pow2<T: Flt>(v: &[T]) -> Vec<T> {
    let m = v.iter().fold(0.0f64, |m, a| m.max(a.f().abs()));
    if m == 0.0 || !m.is_finite() {
        return v.to_vec();
    }
    let mut e = 0i32;
    let mut p = 1.0f64;
    while p < m {
        p *= 2.0;
        e += 1;
    }
    while p / 2.0 >= m {
        p /= 2.0;
        e -= 1;
    }
    v.iter().map(|a| *a * T::pow2(-e)).collect()
}

/// (axis exponent, data exponent) with |data - axis| bounded so that slopes stay representable
pub fn extreme_exponents<T: Flt>(rng: &mut Rng) -> (i32, i32) {
    let (amax, dlo, dhi, gap) = if T::MANT == 23 { (100, -110, 125, 100) } else { (880, -960, 1021, 880) };
    let ex = rng.irange(-amax as i64, amax as i64) as i32;
    let lo = (ex - gap).max(dlo);
    let hi = (ex + gap).min(dhi);
    let ey = match rng.below(3) {
        0 => hi,
        1 => lo,
        _ => rng.irange(lo as i64, hi as i64) as i32,
    };
    (ex, ey)
}

pub fn gen_linear_case<T: Flt>(rng: &mut Rng, o: &LinearOpts) -> (Spec1<T>, Labels) {
    let n = match o.force_n {
        Some(n) => n,
        None => pick_n_long(rng, 2, o.max_n.max(2), if o.max_n >= 40 { 1025 } else { 0 }),
    };
    let use_default_axis = o.force_n.is_none() && rng.chance(0.1);
    let class = if o.allow_cluster {
        *rng.pick(&AxisClass::ALL)
    } else {
        *rng.pick(&AxisClass::SMOOTH)
    };
    let x: Vec<T> = if use_default_axis {
        (0..n).map(|i| T::of(i as f64)).collect()
    } else {
        gen_axis(rng, n, class, &AxisOpts::linear())
    };
    let mut lanes = gen_lane_shape(rng, o.max_lane_rank, o.allow_zero_lanes);
    if n > 40 {
        while lanes.iter().product::<usize>() > 4 {
            let i = (0..lanes.len()).max_by_key(|&i| lanes[i]).unwrap();
            lanes[i] -= 1;
        }
    }
    let mut shape = vec![n];
    shape.extend(&lanes);
    let dclass = *rng.pick(&DataClass::ALL);
    let mut data = gen_data::<T>(rng, &shape, dclass, (-100, 100));
    let broadcast = lanes.iter().product::<usize>() > 1 && rng.chance(0.05);
    if broadcast {
        crate::dynapi::equalise_lanes(&mut data, 1);
    }
    let mut x = x;
    let mut extreme = false;
    if o.extreme_magnitudes && !use_default_axis && !broadcast && rng.chance(0.15) {
        // magnitudes near the ends of the exponent range, chosen so that everything the
        // mathematical result needs (differences, the slope) stays representable
        let smooth = *rng.pick(&AxisClass::SMOOTH);
        let base: Vec<T> = gen_axis(rng, n, smooth, &AxisOpts { max_ratio: 65536.0, scale_exp: (0, 0) });
        let base_data = gen_data::<T>(rng, &shape, dclass, (0, 0));
        let (ex, ey) = extreme_exponents::<T>(rng);
        x = normalise_pow2(&base).iter().map(|v| *v * T::pow2(ex)).collect();
        let flat: Vec<T> = base_data.iter().copied().collect();
        let nd = normalise_pow2(&flat);
        data = ArrayD::from_shape_vec(IxDyn(&shape), nd.iter().map(|v| *v * T::pow2(ey)).collect()).unwrap();
        fix_increasing(&mut x);
        extreme = x.iter().all(|v| v.is_finite());
        if !extreme {
            x = base;
            data = base_data;
        }
    }
    let labels = Labels {
        axis: if use_default_axis {
            "default-index".into()
        } else if extreme {
            "extreme-magnitude".into()
        } else {
            class.name().into()
        },
        data: if extreme { "extreme-magnitude".into() } else { dclass.name().into() },
        n_class: n_class(n, 2),
        boundary: "-".into(),
        lanes: format!("{:?}", lanes),
        uniform: is_uniform(&x),
    };
    let labels = Labels {
        uniform: is_uniform(&x),
        ..labels
    };
    let mut spec = Spec1::new(
        data,
        if use_default_axis {
            None
        } else {
            Some(Array1::from(x))
        },
        Strat1::Linear {
            extrapolate: o.extrapolate,
        },
    );
    spec.dynamic = rng.chance(0.2);
    random_layouts1(rng, &mut spec);
    // now and then through the unchecked constructor (the inputs are valid)
    spec.ctor_unchecked = rng.chance(0.12);
    if broadcast {
        spec.broadcast_lanes = true;
        spec.sto = if spec.x.is_none() || rng.chance(0.5) { StoCombo::VO } else { StoCombo::VV };
    }
    (spec, labels)
}

pub struct GridOpts {
    pub extrapolate: bool,
    pub max_nx: usize,
    pub max_ny: usize,
    pub max_lane_rank: usize,
    pub allow_zero_lanes: bool,
    pub allow_cluster: bool,
    pub extreme_magnitudes: bool,
}

impl Default for GridOpts {
    fn default() -> Self {
        GridOpts {
            extrapolate: false,
            max_nx: 12,
            max_ny: 9,
            max_lane_rank: 4,
            allow_zero_lanes: false,
            allow_cluster: true,
            extreme_magnitudes: false,
        }
    }
}

pub struct Labels2 {
    pub axis_x: String,
    pub axis_y: String,
    pub data: String,
    pub grid: String,
    pub lanes: String,
}

pub fn gen_grid_case<T: Flt>(rng: &mut Rng, o: &GridOpts) -> (Spec2<T>, Labels2) {
    let nx = pick_n_long(rng, 2, o.max_nx.max(2), if o.max_nx >= 12 { 65 } else { 0 });
    let mut ny = pick_n_long(rng, 2, o.max_ny.max(2), if o.max_ny >= 9 { 33 } else { 0 });
    // a square grid whose axes share both end values but not the interior knots
    let twin_ends = nx >= 3 && nx <= o.max_ny.max(2) && rng.chance(0.08);
    if twin_ends {
        ny = nx;
    }
    let classes: &[AxisClass] = if o.allow_cluster {
        &AxisClass::ALL
    } else {
        &AxisClass::SMOOTH
    };
    let cx = *rng.pick(classes);
    let cy = *rng.pick(classes);
    let defx = rng.chance(0.15);
    let defy = rng.chance(0.15);
    let x: Vec<T> = if defx {
        (0..nx).map(|i| T::of(i as f64)).collect()
    } else {
        gen_axis(rng, nx, cx, &AxisOpts::linear())
    };
    let (defy, y): (bool, Vec<T>) = if twin_ends {
        // y[i] strictly between x[i] and x[i+1] for interior i; same first and last value
        let mut y = x.clone();
        for i in 1..nx - 1 {
            let t = *rng.pick(&[0.25, 0.5, 0.75]);
            let v = x[i] + (x[i + 1] - x[i]) * T::of(t);
            if v > x[i] && v < x[i + 1] {
                y[i] = v;
            }
        }
        (false, y)
    } else if defy {
        (true, (0..ny).map(|i| T::of(i as f64)).collect())
    } else {
        (false, gen_axis(rng, ny, cy, &AxisOpts::linear()))
    };
    let lanes = gen_lane_shape(rng, o.max_lane_rank, o.allow_zero_lanes);
    let mut shape = vec![nx, ny];
    shape.extend(&lanes);
    let dclass = *rng.pick(&DataClass::ALL);
    let mut data = gen_data::<T>(rng, &shape, dclass, (-100, 100));
    let (mut x, mut y) = (x, y);
    if o.extreme_magnitudes && !defx && !defy && !twin_ends && rng.chance(0.15) {
        let opts = AxisOpts { max_ratio: 65536.0, scale_exp: (0, 0) };
        let (c1, c2) = (*rng.pick(&AxisClass::SMOOTH), *rng.pick(&AxisClass::SMOOTH));
        let bx: Vec<T> = gen_axis(rng, nx, c1, &opts);
        let by: Vec<T> = gen_axis(rng, ny, c2, &opts);
        let bd = gen_data::<T>(rng, &shape, dclass, (0, 0));
        let (ex, ez) = extreme_exponents::<T>(rng);
        // the y axis exponent must also stay within reach of the data exponent
        let gap = if T::MANT == 23 { 100 } else { 880 };
        let amax = if T::MANT == 23 { 100 } else { 880 };
        let ey = rng.irange((ez - gap).max(-amax) as i64, (ez + gap).min(amax) as i64) as i32;
        let mut nx_: Vec<T> = normalise_pow2(&bx).iter().map(|v| *v * T::pow2(ex)).collect();
        let mut ny_: Vec<T> = normalise_pow2(&by).iter().map(|v| *v * T::pow2(ey)).collect();
        fix_increasing(&mut nx_);
        fix_increasing(&mut ny_);
        let flat: Vec<T> = bd.iter().copied().collect();
        let nd = normalise_pow2(&flat);
        if nx_.iter().chain(ny_.iter()).all(|v| v.is_finite()) {
            x = nx_;
            y = ny_;
            data = ArrayD::from_shape_vec(IxDyn(&shape), nd.iter().map(|v| *v * T::pow2(ez)).collect()).unwrap();
        }
    }
    let labels = Labels2 {
        axis_x: if defx { "default-index".into() } else { cx.name().into() },
        axis_y: if twin_ends { "same-ends-as-x".into() } else if defy { "default-index".into() } else { cy.name().into() },
        data: dclass.name().into(),
        grid: format!("{}x{}", nx.min(9), ny.min(9)),
        lanes: format!("{:?}", lanes),
    };
    let mut spec = Spec2::new(
        data,
        if defx { None } else { Some(Array1::from(x)) },
        if defy { None } else { Some(Array1::from(y)) },
        Strat2::Bilinear {
            extrapolate: o.extrapolate,
        },
    );
    spec.dynamic = rng.chance(0.2);
    random_layouts2(rng, &mut spec);
    spec.ctor_unchecked = rng.chance(0.12);
    (spec, labels)
}

/// a table of 2*ny-1 (>= nx) values for aliased axes (x = table[..nx], y = table[..;2]); mostly
/// increasing, optionally with one value out of order somewhere
pub fn gen_alias_table<T: Flt>(rng: &mut Rng, nx: usize, ny: usize, allow_invalid: bool) -> Vec<T> {
    let len = nx.max(2 * ny - 1);
    let mut v: Vec<T> = Vec::with_capacity(len);
    let mut pos = rng.irange(-20, 20) as f64 * 0.25;
    for _ in 0..len {
        v.push(T::of(pos));
        pos += 0.25 * (1 + rng.below(6)) as f64;
    }
    if allow_invalid && rng.chance(0.6) {
        let i = rng.below(len);
        let j = rng.below(len);
        match rng.below(3) {
            0 => v.swap(i, j),
            1 => v[i] = v[j],
            _ => v[i] = T::nan(),
        }
    }
    v
}

/// is lane data affine in x (then a wrong bracket is invisible to a value check)?
pub fn data_is_affine<T: Flt>(x: &[T], data: &ArrayD<T>) -> bool {
    let n = x.len();
    if n < 3 {
        return true;
    }
    let lanes = data.len() / n.max(1);
    let flat: Vec<f64> = data.iter().map(|v| v.f()).collect();
    for l in 0..lanes {
        let y = |i: usize| flat[i * lanes + l];
        let s0 = (y(1) - y(0)) / (x[1].f() - x[0].f());
        for i in 1..n - 1 {
            let s = (y(i + 1) - y(i)) / (x[i + 1].f() - x[i].f());
            if (s - s0).abs() > 1e-9 * (s.abs() + s0.abs() + 1e-300) {
                return false;
            }
        }
    }
    true
}

/// arrange a flat list of query values into a query array of the given kind: picks a
/// shape with `rank` axes whose product is <= len (values beyond are dropped)
pub fn shape_for(len: usize, rank: usize, rng: &mut Rng) -> Vec<usize> {
    if rank == 0 {
        return vec![];
    }
    if rank == 1 {
        return vec![len];
    }
    let mut shape = Vec::new();
    let mut rest = len.max(1);
    for _ in 0..rank - 1 {
        let d = if rest >= 2 { 1 + rng.below(3.min(rest)) } else { 1 };
        shape.push(d);
        rest /= d;
    }
    shape.push(rest);
    rng.shuffle(&mut shape);
    shape
}

pub fn make_query<T: Flt>(q: &[T], kind: QKind, rng: &mut Rng) -> Query<T> {
    let rank = match kind.static_rank() {
        Some(r) => r,
        None => rng.below(4),
    };
    let shape = shape_for(q.len(), rank, rng);
    let n: usize = shape.iter().product();
    let vals: Vec<T> = q.iter().copied().take(n).collect();
    Query::from_vec(vals, &shape, kind)
}
