"""Per-property configuration of ./check: driver binary, legs per tier, observation gates."""

N = ("native", 1.0)

PROPS = {
    "C01": dict(bin="c01", oracle=True,
                legs={"quick": [N], "thorough": [N]},
                gates=[("hist_keys_min", "axis_class", 7), ("hist_keys_min", "entry", 3),
                       ("nontrivial_min", 100)],
                assumptions=["tolerance 16*2^-52*Y (2^-23 for f32) with Y the larger bracketing magnitude; "
                             "derived bound of the crate's formula is 11u*Y",
                             "python3 fractions is exact"]),
    "C02": dict(bin="c02", oracle=True,
                legs={"quick": [N], "thorough": [N]},
                gates=[("hist_keys_min", "ordered_pair", 25), ("nontrivial_min", 50)],
                assumptions=["tolerance = 2^13 * u * (1+rho) * G * amplification of the exact differentiation "
                             "weights actually used (see DESIGN 2.4 / C02)"]),
    "C03": dict(bin="c03", oracle=True,
                legs={"quick": [N], "thorough": [N, ("o0", 0.25)]},
                gates=[("hist_keys_min", "ordered_pair", 25), ("nontrivial_min", 50)],
                assumptions=["value tolerance = 2^13 * u * (1+rho) * G * max(1,|t|,|1-t|)^3 (DESIGN 2.4)",
                             "reference spline: exact moment formulation, sparse Gaussian elimination"]),
}
