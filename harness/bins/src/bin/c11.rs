//! C11 - segment lookup returns the bracketing interval for every axis and query.
//! In-process: the oracle is an independent search (std partition_point, plus a linear
//! scan on short axes). (a) bounded-exhaustive: every (length <= L, initial-guess
//! position, rank of the query); (b) random axes of all spacing classes up to 10^4
//! points, f64 / f32 / i32 / i64, through get_lower_index and both interpolators.

use vh::gen::*;
use vh::ndarray::{Array1, ArrayD, IxDyn};
use vh::ndarray_interp::vector_extensions::VectorExtensions;
use vh::outcome::guard;
use vh::report::*;
use vh::spec::*;
use vh::*;

fn oracle<T: PartialOrd + Copy>(x: &[T], q: T) -> usize {
    let n = x.len();
    let cnt = x.partition_point(|v| *v <= q);
    cnt.saturating_sub(1).min(n - 2)
}

fn oracle_scan<T: PartialOrd + Copy>(x: &[T], q: T) -> usize {
    let n = x.len();
    let mut i = 0;
    while i + 2 < n && x[i + 1] <= q {
        i += 1;
    }
    i
}

trait Ax: Copy + PartialOrd + std::fmt::Debug + 'static {
    const NAME: &'static str;
    fn lookup(x: &Array1<Self>, q: Self) -> Result<usize, String>;
    /// the same lookup through a reversed view of the reversed axis / an every-second-element view
    fn lookup_view(rev: &Array1<Self>, big: &Array1<Self>, which: u8, q: Self) -> Result<usize, String>;
    fn show(self) -> String;
}
macro_rules! impl_ax {
    ($t:ty, $n:expr) => {
        impl Ax for $t {
            const NAME: &'static str = $n;
            fn lookup(x: &Array1<Self>, q: Self) -> Result<usize, String> {
                guard(|| x.get_lower_index(q))
            }
            fn lookup_view(rev: &Array1<Self>, big: &Array1<Self>, which: u8, q: Self) -> Result<usize, String> {
                if which == 0 {
                    let v = rev.slice(vh::ndarray::s![..;-1]);
                    guard(|| v.get_lower_index(q))
                } else {
                    let v = big.slice(vh::ndarray::s![..;2]);
                    guard(|| v.get_lower_index(q))
                }
            }
            fn show(self) -> String {
                format!("{:?}", self)
            }
        }
    };
}
impl_ax!(f64, "f64");
impl_ax!(f32, "f32");
impl_ax!(i32, "i32");
impl_ax!(i64, "i64");

fn check_one<T: Ax>(ev: &mut Ev, case: u64, x: &Array1<T>, xs: &[T], q: T, class: &str, via: &str) {
    ev.add("lookups", 1);
    ev.count("query_class", class);
    let want = oracle(xs, q);
    if xs.len() <= 64 {
        debug_assert_eq!(want, oracle_scan(xs, q));
    }
    let got = T::lookup(x, q);
    let bad = match &got {
        Ok(i) => *i != want,
        Err(_) => true,
    };
    if bad {
        let sig = match &got {
            Err(_) => "C11:panic",
            Ok(i) if *i > xs.len() - 2 => "C11:index-out-of-range",
            _ => "C11:wrong-interval",
        };
        let shown: Vec<String> = if xs.len() <= 48 {
            xs.iter().map(|v| v.show()).collect()
        } else {
            vec![format!("{} points from {} to {}", xs.len(), xs[0].show(), xs[xs.len() - 1].show())]
        };
        ev.violation(
            sig,
            &format!(
                "{} axis (len {}), q={} [{}] via {}: expected interval {}, got {:?}",
                T::NAME,
                xs.len(),
                q.show(),
                class,
                via,
                want,
                got
            ),
            case,
            J::obj()
                .set("elem", T::NAME)
                .set("axis", J::arr(shown))
                .set("q", q.show())
                .set("expected", want),
        );
    }
}

/// (a) one (len, guess g, rank r) combination: ends 0 and len-1 so that the even-spacing
/// guess for q is floor(q); interior knots placed so that q = g + 1/2 lies in interval r
fn exhaustive_combo(ev: &mut Ev, case: u64, len: usize, g: usize, r: usize) {
    let q = g as f64 + 0.5;
    let last = (len - 1) as f64;
    let mut xs = vec![0.0f64; len];
    xs[len - 1] = last;
    // knots 1..=r strictly inside (0, q); knots r+1..=len-2 strictly inside (q, last)
    for k in 1..=r.min(len - 2) {
        xs[k] = q * k as f64 / (r + 1) as f64;
    }
    let above = len - 2 - r.min(len - 2);
    for m in 1..=above {
        xs[r + m] = q + (last - q) * m as f64 / (above + 1) as f64;
    }
    debug_assert!(xs.windows(2).all(|w| w[0] < w[1]), "{xs:?}");
    let arr = Array1::from(xs.clone());
    ev.case(((len as u64) << 32) | ((g as u64) << 16) | r as u64, g != r);
    ev.add("exhaustive_combinations", 1);
    check_one(ev, case, &arr, &xs, q, "guess-vs-rank", "get_lower_index");
    let kr = xs[r];
    check_one(ev, case, &arr, &xs, kr, "knot", "get_lower_index");
    check_one(ev, case, &arr, &xs, kr.next_up(), "knot+1ulp", "get_lower_index");
    check_one(ev, case, &arr, &xs, kr.next_down(), "knot-1ulp", "get_lower_index");
    check_one(ev, case, &arr, &xs, xs[r + 1].next_down(), "next-knot-1ulp", "get_lower_index");
}

fn float_queries<T: Flt>(rng: &mut Rng, xs: &[T], cap: usize) -> Vec<(T, &'static str)> {
    let n = xs.len();
    let mut q: Vec<(T, &'static str)> = Vec::new();
    let mut idx: Vec<usize> = (0..n).collect();
    if n > cap {
        rng.shuffle(&mut idx);
        idx.truncate(cap);
        idx.push(0);
        idx.push(n - 1);
        idx.push(n - 2);
        idx.push(1);
    }
    for &i in &idx {
        q.push((xs[i], "knot"));
        q.push((xs[i].up(), "knot+1ulp"));
        q.push((xs[i].down(), "knot-1ulp"));
        if i + 1 < n {
            q.push((xs[i] + (xs[i + 1] - xs[i]) / T::of(2.0), "midpoint"));
        }
    }
    for _ in 0..cap.min(64) {
        q.push((rand_in(rng, xs[0], xs[n - 1]), "random"));
    }
    q.push((T::infinity(), "+inf"));
    q.push((T::neg_infinity(), "-inf"));
    q.push((T::max_value(), "+MAX"));
    q.push((-T::max_value(), "-MAX"));
    q.push((T::of(0.0), "+0"));
    q.push((-T::of(0.0), "-0"));
    // the class found by probing: q just below the last value (guess may be the last index)
    q.push((xs[n - 1].down(), "prev(last)"));
    q.push((xs[n - 1].down().down(), "prev(prev(last))"));
    q
}

/// mixed-magnitude axis (only for this property): magnitudes 1e-300..1e300, subject to the
/// precondition that the span and (len-1)/span are finite
fn gen_mixed<T: Flt>(rng: &mut Rng, n: usize) -> Vec<T> {
    let emax = if T::MANT == 23 { 100 } else { 990 };
    let mut v: Vec<T> = (0..n)
        .map(|_| {
            let e = rng.irange(-emax, emax) as i32;
            let m = T::of(1.0 + rng.f01());
            let s = if rng.chance(0.5) { T::of(1.0) } else { T::of(-1.0) };
            s * m * T::pow2(e)
        })
        .collect();
    v.sort_by(|a, b| a.partial_cmp(b).unwrap());
    fix_increasing(&mut v);
    v
}

fn precondition<T: Flt>(xs: &[T]) -> bool {
    let n = xs.len();
    let s = xs[n - 1] - xs[0];
    let m = T::of((n - 1) as f64) / s;
    s.is_finite() && m.is_finite() && s > T::of(0.0)
}

fn float_case<T: Elem + Ax>(case: u64, args: &Args, ev: &mut Ev) {
    let mut rng = Rng::derive(args.seed, "C11", &[case]);
    let n = match rng.below(10) {
        0 => 2,
        1 => 3,
        2..=5 => rng.range(4, 40),
        6..=8 => rng.range(41, 1000),
        _ => rng.range(1001, 10000),
    };
    // a few very long axes in every run (tens of thousands of knots and more)
    let very_long = case % 60 == 13 && !cfg!(miri);
    let n = if very_long { *rng.pick(&[32768usize, 32769, 40000, 65537, 131072]) } else { n };
    let (xs, class): (Vec<T>, String) = if rng.chance(0.15) {
        (gen_mixed(&mut rng, n), "mixed-magnitude".to_string())
    } else {
        let c = *rng.pick(&AxisClass::ALL);
        let opts = AxisOpts {
            max_ratio: 1e6,
            scale_exp: (-200, 200),
        };
        (gen_axis(&mut rng, n, c, &opts), c.name().to_string())
    };
    if !precondition(&xs) {
        ev.add("skipped_precondition", 1);
        return;
    }
    let mut xs = xs;
    if very_long && rng.chance(0.7) {
        // a data gap at the end (and sometimes at the start): the end interval is much wider
        // than the mean spacing
        let span = xs[n - 1] - xs[0];
        let wide = span * T::of(0.05);
        if (xs[n - 1] + wide).is_finite() && xs[n - 1] + wide > xs[n - 1] {
            xs[n - 1] = xs[n - 1] + wide;
        }
        if rng.chance(0.5) && (xs[0] - wide).is_finite() && xs[0] - wide < xs[0] {
            xs[0] = xs[0] - wide;
        }
    }
    let arr = Array1::from(xs.clone());
    let mut qs = float_queries(&mut rng, &xs, 200);
    // the first and the last two intervals are always probed in depth
    if n >= 4 {
        for i in [0usize, 1, n - 3, n - 2] {
            let (a, b) = (xs[i], xs[i + 1]);
            for t in [0.02, 0.25, 0.5, 0.75, 0.98] {
                let q = a + (b - a) * T::of(t);
                if q >= a && q <= b {
                    qs.push((q, "end-interval"));
                }
            }
            qs.push((b.down(), "end-interval"));
            qs.push((a.up(), "end-interval"));
        }
    }
    let h = hash_bits(&[&bits_of(&xs)], &[<T as Flt>::NAME]);
    ev.case(h, !is_uniform(&xs));
    ev.count("axis_class", &class);
    ev.count("elem", <T as Flt>::NAME);
    ev.count("len_class", if n <= 3 { "2-3" } else if n <= 40 { "4-40" } else if n <= 1000 { "41-1000" } else if n <= 10000 { "1001-10000" } else { "32768-131072" });
    // observe (harness-side replica of the O(1) guess) how often the guess is the last index
    for (q, cl) in &qs {
        if *q > xs[0] && *q < xs[n - 1] {
            let m = (T::of((n - 1) as f64) - T::of(0.0)) / (xs[n - 1] - xs[0]);
            let mid = m * (*q - xs[0]) + T::of(0.0);
            let gi = mid.f() as usize;
            if gi >= n - 1 {
                ev.add("guess_is_last_index", 1);
            } else if xs[gi] <= *q && *q < xs[gi + 1] {
                ev.add("guess_hits", 1);
            } else {
                ev.add("guess_misses_binary_search", 1);
            }
        }
        check_one(ev, case, &arr, &xs, *q, cl, "get_lower_index");
    }
    // the same axis as a reversed (negative stride) view and as an every-second-element view
    {
        let rev: Array1<T> = xs.iter().rev().copied().collect();
        let mut big: Array1<T> = Array1::from_elem(2 * n, xs[0]);
        for (i, v) in xs.iter().enumerate() {
            big[2 * i] = *v;
        }
        for (k, (q, cl)) in qs.iter().enumerate().take(160) {
            let which = (k % 2) as u8;
            ev.add("lookups_via_views", 1);
            let want = oracle(&xs, *q);
            match <T as Ax>::lookup_view(&rev, &big, which, *q) {
                Ok(g) if g == want => {}
                o => {
                    ev.violation(
                        "C11:wrong-interval-through-view",
                        &format!(
                            "{} axis (len {n}) as {} view, q={q:?} [{cl}]: expected {want}, got {:?}",
                            <T as Flt>::NAME,
                            if which == 0 { "reversed" } else { "strided" },
                            o
                        ),
                        case,
                        J::obj().set("axis", vh::events::hexes(xs.iter().copied())).set("q", q.hex()),
                    );
                    break;
                }
            }
        }
    }
    // through the interpolators (their axes are validated copies of the same values)
    if n <= 1000 && case % 3 == 0 {
        let data = ArrayD::from_shape_vec(IxDyn(&[n]), vec![T::of(0.0); n]).unwrap();
        let spec = Spec1::new(data, Some(arr.clone()), Strat1::Linear { extrapolate: true });
        build1(&spec, |r| {
            let Ok(i) = r else {
                ev.violation("C11:build-failed", "valid axis rejected", case, J::obj());
                return;
            };
            for (q, cl) in qs.iter().take(120) {
                ev.add("lookups_via_interp1d", 1);
                let want = oracle(&xs, *q);
                match i.left_of(*q) {
                    Outcome::Ok(g) if g == want => {}
                    o => ev.violation(
                        "C11:interp1d-get_index_left_of",
                        &format!("q={q:?} [{cl}]: expected {want}, got {}", match &o { Outcome::Ok(g) => format!("{g}"), o => o.detail() }),
                        case,
                        J::obj().set("axis", vh::events::hexes(xs.iter().copied())).set("q", q.hex()),
                    ),
                }
            }
        });
        if n <= 60 {
            let ys: Vec<T> = gen_axis(&mut rng, 3, AxisClass::FullMantissa, &AxisOpts::linear());
            let data = ArrayD::from_shape_vec(IxDyn(&[n, 3]), vec![T::of(0.0); n * 3]).unwrap();
            let spec2 = Spec2::new(data, Some(arr.clone()), Some(Array1::from(ys.clone())), Strat2::Bilinear { extrapolate: true });
            build2(&spec2, |r| {
                let Ok(i) = r else { return };
                for (k, (q, cl)) in qs.iter().take(60).enumerate() {
                    let qy = [ys[0], ys[1], ys[2], ys[0].down(), ys[2].up(), ys[1].down()][k % 6];
                    ev.add("lookups_via_interp2d", 1);
                    let want = (oracle(&xs, *q), oracle(&ys, qy));
                    match i.left_of(*q, qy) {
                        Outcome::Ok(g) if g == want => {}
                        o => ev.violation(
                            "C11:interp2d-get_index_left_of",
                            &format!("q=({q:?},{qy:?}) [{cl}]: expected {want:?}, got {}", match &o { Outcome::Ok(g) => format!("{g:?}"), o => o.detail() }),
                            case,
                            J::obj().set("axis", vh::events::hexes(xs.iter().copied())),
                        ),
                    }
                }
            });
        }
    }
    ev.sample(|| {
        J::obj()
            .set("case", case)
            .set("elem", <T as Flt>::NAME)
            .set("axis_class", class.as_str())
            .set("len", n)
            .set("first", xs[0].f())
            .set("last", xs[n - 1].f())
            .set("queries", qs.len())
    });
}

fn int_case<I>(case: u64, args: &Args, ev: &mut Ev, lim: i64, name: &str)
where
    I: Ax + TryFrom<i64>,
    <I as TryFrom<i64>>::Error: std::fmt::Debug,
{
    let mut rng = Rng::derive(args.seed, "C11-int", &[case]);
    let n = match rng.below(4) {
        0 => rng.range(2, 4),
        1 | 2 => rng.range(5, 60),
        _ => rng.range(61, 3000),
    };
    let dense = rng.chance(0.3);
    let maxgap = if dense { 2 } else { ((2 * lim) / n as i64).clamp(2, 1_000_000) };
    // 64-bit axes also far away from zero (values that f64 cannot represent exactly), e.g.
    // nanosecond time stamps: small gaps on top of a huge offset
    let big_offset = lim > (1i64 << 40) && rng.chance(0.4);
    let mut pos = if big_offset {
        let off = *rng.pick(&[1_700_000_000_000_000_000i64, -2_000_000_000_000_000_003, (1i64 << 53) + 1, (1i64 << 61) - 12345]);
        off - if off > 0 { n as i64 * maxgap.min(1000) } else { 0 }
    } else {
        -rng.irange(0, lim.min(n as i64 * maxgap / 2))
    };
    let maxgap = if big_offset { maxgap.min(1000) } else { maxgap };
    let mut v: Vec<i64> = Vec::with_capacity(n);
    for _ in 0..n {
        v.push(pos);
        pos += 1 + rng.below(maxgap as usize) as i64;
    }
    if *v.last().unwrap() > lim || v[0] < -lim {
        ev.add("skipped_precondition", 1);
        return;
    }
    let xs: Vec<I> = v.iter().map(|&a| I::try_from(a).unwrap()).collect();
    let arr = Array1::from(xs.clone());
    ev.case(vh::rng::fnv(format!("{name}{v:?}").as_bytes()), true);
    ev.count("elem", name);
    ev.count("axis_class", if big_offset { "integer-large-offset" } else if dense { "integer-dense" } else { "integer-sparse" });
    let mut idx: Vec<usize> = (0..n).collect();
    rng.shuffle(&mut idx);
    idx.truncate(150);
    idx.extend([0, n - 1, n - 2]);
    for &i in &idx {
        for (d, cl) in [(0i64, "knot"), (1, "knot+1"), (-1, "knot-1")] {
            let q = v[i] + d;
            if q.abs() <= lim {
                check_one(ev, case, &arr, &xs, I::try_from(q).unwrap(), cl, "get_lower_index");
            }
        }
        if i + 1 < n {
            let q = v[i] + (v[i + 1] - v[i]) / 2;
            check_one(ev, case, &arr, &xs, I::try_from(q).unwrap(), "midpoint", "get_lower_index");
        }
    }
    for q in [lim, -lim, 0] {
        check_one(ev, case, &arr, &xs, I::try_from(q).unwrap(), "extreme", "get_lower_index");
    }
}

/// Interp2D::get_index_left_of with x and y as two views of one buffer (same first element,
/// often the same length, different strides) and bit-identical diagonal queries: each
/// coordinate must be bracketed on its own axis.
fn aliased_axes_lookups(ev: &mut Ev) {
    use vh::ndarray::{s, Array2};
    use vh::ndarray_interp::interp2d::{Bilinear, Interp2D};
    let mut rng = Rng::derive(11, "C11-aliased-axes", &[0]);
    for round in 0..(if cfg!(miri) { 12u64 } else { 200 }) {
        let n = 3 + rng.below(7);
        let ny = if round % 3 == 0 { 2 + rng.below(n) } else { n };
        let len = n.max(2 * ny - 1);
        let mut pos = rng.irange(-12, 12) as f64 * 0.25;
        let table: Array1<f64> = (0..len)
            .map(|_| {
                let v = pos;
                pos += 0.25 * (1 + rng.below(6)) as f64;
                v
            })
            .collect();
        let (xv, yv) = (table.slice(s![..n]), table.slice(s![..2 * ny - 1;2]));
        let data = Array2::<f64>::zeros((n, ny));
        let (xs, ys): (Vec<f64>, Vec<f64>) = (xv.to_vec(), yv.to_vec());
        let interp = if round % 2 == 0 {
            Interp2D::builder(data.view()).x(xv).y(yv).build().unwrap()
        } else {
            Interp2D::new_unchecked(xv, yv, data.view(), Bilinear::new())
        };
        let hi = xs[n - 1].min(ys[ny - 1]);
        let mut qs: Vec<(f64, f64)> = Vec::new();
        for _ in 0..12 {
            let q = xs[0] + rng.f01() * (hi - xs[0]);
            qs.push((q, q));
        }
        for &k in xs.iter().chain(ys.iter()) {
            if k <= hi {
                qs.push((k, k));
            }
        }
        for _ in 0..6 {
            qs.push((xs[0] + rng.f01() * (xs[n - 1] - xs[0]), ys[0] + rng.f01() * (ys[ny - 1] - ys[0])));
        }
        ev.case(vh::rng::fnv(format!("aliased{round}").as_bytes()), true);
        ev.count("axis_class", "aliased-x-y-views");
        for (qx, qy) in qs {
            ev.add("lookups", 1);
            ev.add("aliased_axes_lookups", 1);
            let want = (oracle(&xs, qx), oracle(&ys, qy));
            let got = guard(|| interp.get_index_left_of(qx, qy));
            if got != Ok(want) {
                ev.violation(
                    "C11:wrong-interval",
                    &format!(
                        "Interp2D over two views of one table (x = t[..{n}], y = t[..;2] with {ny} values; {}), q=({qx:?},{qy:?}): expected {:?}, got {:?}",
                        if round % 2 == 0 { "builder" } else { "new_unchecked" },
                        want,
                        got
                    ),
                    9_500_000 + round,
                    J::obj().set("round", round),
                );
                break;
            }
        }
    }
}

/// axes whose span (or whose (len-1)/span) is not representable: sentinel knots at +-MAX,
/// infinite end knots, knots a few subnormals apart
fn overflowing_span_lookups(ev: &mut Ev) {
    let (m, inf, tiny) = (f64::MAX, f64::INFINITY, 5e-324);
    let axes: Vec<Vec<f64>> = vec![
        vec![-m, -1.0, 0.5, 3.0, m],
        vec![-m, 0.0, m],
        vec![-m, m],
        vec![-1.0e308, -1.0, 1.0e308, 1.5e308],
        vec![0.0, 1.0, 2.0, inf],
        vec![-inf, -2.0, 0.0, 4.0],
        vec![-inf, 0.0, inf],
        vec![0.0, tiny, 2.0 * tiny, 5.0 * tiny],
        vec![-3.0 * tiny, -tiny, 0.0, tiny, 4.0 * tiny, 9.0 * tiny],
        (0..if cfg!(miri) { 40 } else { 300 }).map(|i| i as f64 * tiny).collect(),
    ];
    for (k, ax) in axes.iter().enumerate() {
        let x = Array1::from(ax.clone());
        let mut qs: Vec<f64> = ax.clone();
        for w in ax.windows(2) {
            let mid = w[0] / 2.0 + w[1] / 2.0;
            if mid.is_finite() {
                qs.push(mid);
            }
        }
        for &v in ax.iter() {
            if v.is_finite() {
                qs.push(v.up());
                qs.push(v.down());
            }
        }
        qs.extend([0.25, -0.25, 1.0e300, -1.0e300, m, -m, inf, -inf]);
        ev.case(vh::rng::fnv(format!("overflow-axis{k}").as_bytes()), true);
        ev.count("axis_class", "overflowing-span");
        for &q in &qs {
            ev.add("overflowing_span_lookups", 1);
            check_one::<f64>(ev, 9_600_000 + k as u64, &x, ax, q, "overflowing-span", "get_lower_index");
        }
    }
}

fn main() {
    let args = Args::parse("C11");
    let max_len: usize = args.extra_u64("max-len").map(|v| v as usize).unwrap_or(if args.thorough() { 64 } else { 40 });
    // (a) exhaustive part, sharded by length; (b) random part. Case ids: (a) = length,
    // (b) = 10000 + index (so that a single recorded case can be replayed with --only)
    let run_a = args.only.map_or(true, |c| c < 10_000);
    let run_b = args.only.map_or(true, |c| c >= 10_000);
    let ev_a = if run_a {
        run_sharded(&args, (max_len + 1) as u64, |len, ev, _log| {
            let len = len as usize;
            if len < 2 {
                return;
            }
            for g in 0..=len - 2 {
                for r in 0..=len - 2 {
                    exhaustive_combo(ev, len as u64, len, g, r);
                }
            }
            ev.count("exhaustive_lengths_completed", format!("{len}"));
        })
    } else {
        Ev::new()
    };
    let n = args.budget(1200, 200000);
    let mut args_b = args.clone();
    args_b.only = args.only.map(|c| c - 10_000);
    let ev_b = if run_b {
        run_sharded(&args_b, n, |case, ev, _log| match case % 8 {
            0..=3 => float_case::<f64>(10_000 + case, &args, ev),
            4 | 5 => float_case::<f32>(10_000 + case, &args, ev),
            6 => int_case::<i32>(10_000 + case, &args, ev, 1_000_000_000, "i32"),
            _ => int_case::<i64>(10_000 + case, &args, ev, (1i64 << 61) + (1i64 << 60), "i64"),
        })
    } else {
        Ev::new()
    };
    let mut ev = ev_a;
    ev.merge(ev_b);
    if args.blocks() {
        aliased_axes_lookups(&mut ev);
        // `overflowing_span_lookups` is deliberately not run: C11 is stated for axes whose span
        // and (len-1)/span are finite; those axes are C05's business ("all axes")
        let _ = overflowing_span_lookups;
    }
    let expect: u64 = (2..=max_len as u64).map(|l| (l - 1) * (l - 1)).sum();
    let complete = ev.get("exhaustive_combinations") == expect && args.only.is_none();
    ev.finish(
        &args,
        "(a) bounded-exhaustive: for every length <= 40, every initial-guess position g and every \
         rank r an axis with ends 0 and len-1 whose interior knots put q = g+1/2 into interval r, plus \
         q = axis[r], its two neighbouring floats and the float below axis[r+1]; (b) random axes up \
         to 10^4 points: unit, uniform, near-uniform, geometric, dyadic, full-mantissa, ulp-clustered, \
         mixed magnitudes 1e-300..1e300 (precondition: span and (len-1)/span finite), i32 / i64 axes; \
         queries: knots, neighbouring floats, midpoints, random, +-inf, +-MAX, +-0, prev(last); via \
         get_lower_index, Interp1D::get_index_left_of and Interp2D::get_index_left_of. Non-trivial = \
         guess position != rank (a) / non-uniform axis (b); distinct by (len,g,r) / axis hash.",
        J::obj()
            .set("exhaustive_done", complete)
            .set("exhaustive_expected_combinations", expect)
            .set("max_len", max_len),
    );
}
