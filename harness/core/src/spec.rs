//! Runtime descriptions of interpolators and queries (turned into concrete static
//! types by `dynapi`).

use crate::flt::Flt;
use crate::json::J;
use crate::lay::{Layout, Mat};
use crate::rec::RecHandle;
use ndarray::{Array1, ArrayD, IxDyn};

/// one end of one lane
#[derive(Clone, Debug, PartialEq)]
pub enum SB<T> {
    NotAKnot,
    Natural,
    Clamped,
    FirstDeriv(T),
    SecondDeriv(T),
}

/// one lane
#[derive(Clone, Debug, PartialEq)]
pub enum RB<T> {
    NotAKnot,
    Natural,
    Clamped,
    Mixed(SB<T>, SB<T>),
}

impl<T: Flt> SB<T> {
    pub fn scaled(&self, d1: T, d2: T) -> SB<T> {
        match self {
            SB::FirstDeriv(v) => SB::FirstDeriv(*v * d1),
            SB::SecondDeriv(v) => SB::SecondDeriv(*v * d2),
            o => o.clone(),
        }
    }
}

/// whole data set
#[derive(Clone, Debug, PartialEq)]
pub enum Bound<T> {
    NotAKnot,
    Natural,
    Clamped,
    Periodic,
    /// shape should be (1, trailing dims...) - other shapes are used to test validation
    Individual(ArrayD<RB<T>>),
}

impl<T: Flt> SB<T> {
    pub fn name(&self) -> &'static str {
        match self {
            SB::NotAKnot => "NotAKnot",
            SB::Natural => "Natural",
            SB::Clamped => "Clamped",
            SB::FirstDeriv(_) => "FirstDeriv",
            SB::SecondDeriv(_) => "SecondDeriv",
        }
    }
    pub fn json(&self) -> J {
        match self {
            SB::FirstDeriv(v) => J::arr(vec![J::s("FirstDeriv"), J::s(v.hex())]),
            SB::SecondDeriv(v) => J::arr(vec![J::s("SecondDeriv"), J::s(v.hex())]),
            o => J::arr(vec![J::s(o.name())]),
        }
    }
    pub fn to_crate(&self) -> ndarray_interp::interp1d::cubic_spline::SingleBoundary<T> {
        use ndarray_interp::interp1d::cubic_spline::SingleBoundary as S;
        match self {
            SB::NotAKnot => S::NotAKnot,
            SB::Natural => S::Natural,
            SB::Clamped => S::Clamped,
            SB::FirstDeriv(v) => S::FirstDeriv(*v),
            SB::SecondDeriv(v) => S::SecondDeriv(*v),
        }
    }
}

impl<T: Flt> RB<T> {
    /// (left, right)
    pub fn sides(&self) -> (SB<T>, SB<T>) {
        match self {
            RB::NotAKnot => (SB::NotAKnot, SB::NotAKnot),
            RB::Natural => (SB::Natural, SB::Natural),
            RB::Clamped => (SB::Clamped, SB::Clamped),
            RB::Mixed(l, r) => (l.clone(), r.clone()),
        }
    }
    pub fn name(&self) -> String {
        match self {
            RB::NotAKnot => "NotAKnot".into(),
            RB::Natural => "Natural".into(),
            RB::Clamped => "Clamped".into(),
            RB::Mixed(l, r) => format!("Mixed({},{})", l.name(), r.name()),
        }
    }
    pub fn json(&self) -> J {
        let (l, r) = self.sides();
        J::arr(vec![l.json(), r.json()])
    }
    pub fn to_crate(&self) -> ndarray_interp::interp1d::cubic_spline::RowBoundary<T> {
        use ndarray_interp::interp1d::cubic_spline::RowBoundary as R;
        match self {
            RB::NotAKnot => R::NotAKnot,
            RB::Natural => R::Natural,
            RB::Clamped => R::Clamped,
            RB::Mixed(l, r) => R::Mixed {
                left: l.to_crate(),
                right: r.to_crate(),
            },
        }
    }
}

impl<T: Flt> Bound<T> {
    pub fn name(&self) -> String {
        match self {
            Bound::NotAKnot => "NotAKnot".into(),
            Bound::Natural => "Natural".into(),
            Bound::Clamped => "Clamped".into(),
            Bound::Periodic => "Periodic".into(),
            Bound::Individual(_) => "Individual".into(),
        }
    }
    /// per-lane boundary (left,right) in logical lane order; None for Periodic
    pub fn lanes(&self, n_lanes: usize) -> Option<Vec<(SB<T>, SB<T>)>> {
        match self {
            Bound::NotAKnot => Some(vec![(SB::NotAKnot, SB::NotAKnot); n_lanes]),
            Bound::Natural => Some(vec![(SB::Natural, SB::Natural); n_lanes]),
            Bound::Clamped => Some(vec![(SB::Clamped, SB::Clamped); n_lanes]),
            Bound::Periodic => None,
            Bound::Individual(a) => Some(a.iter().map(|r| r.sides()).collect()),
        }
    }
    pub fn json(&self, n_lanes: usize) -> J {
        match self.lanes(n_lanes) {
            None => J::s("Periodic"),
            Some(v) => J::arr(
                v.iter()
                    .map(|(l, r)| J::arr(vec![l.json(), r.json()]))
                    .collect::<Vec<_>>(),
            ),
        }
    }
}

#[derive(Clone, Debug)]
pub enum Strat1<T> {
    Linear {
        extrapolate: bool,
    },
    Spline {
        extrapolate: bool,
        boundary: Bound<T>,
    },
    /// recording strategy with declared minimum data length
    Rec {
        min: usize,
        h: RecHandle,
    },
}

impl<T: Flt> Strat1<T> {
    pub fn name(&self) -> String {
        match self {
            Strat1::Linear { extrapolate } => format!("Linear(ex={})", *extrapolate as u8),
            Strat1::Spline {
                extrapolate,
                boundary,
            } => format!("Spline({},ex={})", boundary.name(), *extrapolate as u8),
            Strat1::Rec { min, .. } => format!("Rec(min={min})"),
        }
    }
    pub fn min_len(&self) -> usize {
        match self {
            Strat1::Linear { .. } => 2,
            Strat1::Spline { .. } => 3,
            Strat1::Rec { min, .. } => *min,
        }
    }
    pub fn extrapolates(&self) -> bool {
        match self {
            Strat1::Linear { extrapolate } => *extrapolate,
            Strat1::Spline { extrapolate, .. } => *extrapolate,
            Strat1::Rec { .. } => true,
        }
    }
}

#[derive(Clone, Debug)]
pub enum Strat2 {
    Bilinear { extrapolate: bool },
    Rec { min: usize, h: RecHandle },
}

impl Strat2 {
    pub fn name(&self) -> String {
        match self {
            Strat2::Bilinear { extrapolate } => format!("Bilinear(ex={})", *extrapolate as u8),
            Strat2::Rec { min, .. } => format!("Rec2(min={min})"),
        }
    }
    pub fn min_len(&self) -> usize {
        match self {
            Strat2::Bilinear { .. } => 2,
            Strat2::Rec { min, .. } => *min,
        }
    }
}

/// storage kind of one array argument
#[derive(Clone, Copy, Debug, PartialEq, Eq, Hash)]
pub enum Sto {
    Owned,
    View,
    Shared,
}

impl Sto {
    pub fn name(&self) -> &'static str {
        match self {
            Sto::Owned => "owned",
            Sto::View => "view",
            Sto::Shared => "shared",
        }
    }
}

/// storage combination for (data, axes) of an interpolator
#[derive(Clone, Copy, Debug, PartialEq, Eq, Hash)]
pub enum StoCombo {
    /// everything owned
    OO,
    /// everything a view
    VV,
    /// everything shared (ArcArray)
    SS,
    /// data a view, axes owned
    VO,
}

impl StoCombo {
    pub const ALL: [StoCombo; 4] = [StoCombo::OO, StoCombo::VV, StoCombo::SS, StoCombo::VO];
    pub fn name(&self) -> &'static str {
        match self {
            StoCombo::OO => "owned/owned",
            StoCombo::VV => "view/view",
            StoCombo::SS => "shared/shared",
            StoCombo::VO => "view/owned",
        }
    }
}

#[derive(Clone, Debug)]
pub struct Spec1<T> {
    pub data: ArrayD<T>,
    /// build with IxDyn instead of the static dimension type
    pub dynamic: bool,
    /// None: the builder's default index axis
    pub x: Option<Array1<T>>,
    pub strat: Strat1<T>,
    pub data_lay: Layout,
    pub x_lay: Layout,
    /// memory layout of the `Individual` boundary array; None: derived from the case's bits
    pub bounds_lay: Option<Layout>,
    pub sto: StoCombo,
    /// construct with `new_unchecked` instead of the builder (valid inputs, explicit axis,
    /// strategies that are their own finished strategy only)
    pub ctor_unchecked: bool,
    /// all lanes are equal and (with view storage) the data is handed over as a broadcast view of
    /// lane 0: zero strides on the lane axes
    pub broadcast_lanes: bool,
}

impl<T: Flt> Bound<T> {
    /// boundary derivative values converted to other units: first derivatives * d1, second
    /// derivatives * d2
    pub fn scaled(&self, d1: T, d2: T) -> Bound<T> {
        match self {
            Bound::Individual(a) => Bound::Individual(a.mapv(|r| match r {
                RB::Mixed(l, r) => RB::Mixed(l.scaled(d1, d2), r.scaled(d1, d2)),
                o => o,
            })),
            o => o.clone(),
        }
    }
}

impl<T: Flt> Spec1<T> {
    pub fn new(data: ArrayD<T>, x: Option<Array1<T>>, strat: Strat1<T>) -> Self {
        let nd = data.ndim();
        Spec1 {
            data,
            dynamic: false,
            x,
            strat,
            data_lay: Layout::c(nd),
            x_lay: Layout::c(1),
            bounds_lay: None,
            sto: StoCombo::OO,
            ctor_unchecked: false,
            broadcast_lanes: false,
        }
    }
    pub fn dynamic(mut self, d: bool) -> Self {
        self.dynamic = d;
        self
    }
    /// the axis the interpolator will use (explicit or default index axis)
    pub fn axis(&self) -> Vec<T> {
        match &self.x {
            Some(x) => x.to_vec(),
            None => (0..self.data.shape().first().copied().unwrap_or(0))
                .map(|i| T::of(i as f64))
                .collect(),
        }
    }
    pub fn lane_shape(&self) -> Vec<usize> {
        self.data.shape().iter().skip(1).copied().collect()
    }
    pub fn n_lanes(&self) -> usize {
        self.lane_shape().iter().product()
    }
    pub fn dim_name(&self) -> String {
        if self.dynamic {
            format!("IxDyn({})", self.data.ndim())
        } else {
            format!("Ix{}", self.data.ndim())
        }
    }
}

#[derive(Clone, Debug)]
pub struct Spec2<T> {
    pub data: ArrayD<T>,
    pub dynamic: bool,
    pub x: Option<Array1<T>>,
    pub y: Option<Array1<T>>,
    pub strat: Strat2,
    pub data_lay: Layout,
    pub x_lay: Layout,
    pub y_lay: Layout,
    pub sto: StoCombo,
    /// x and y are views into this one table that start at the same element: x = table[..nx]
    /// (stride 1), y = every second element (stride 2). Only used with view storage (VV).
    pub alias_table: Option<Array1<T>>,
    /// construct with `new_unchecked` instead of the builder (valid inputs, explicit axes)
    pub ctor_unchecked: bool,
    /// all lanes equal; with view storage the data is a broadcast view of lane 0
    pub broadcast_lanes: bool,
}

impl<T: Flt> Spec2<T> {
    pub fn new(data: ArrayD<T>, x: Option<Array1<T>>, y: Option<Array1<T>>, strat: Strat2) -> Self {
        let nd = data.ndim();
        Spec2 {
            data,
            dynamic: false,
            x,
            y,
            strat,
            data_lay: Layout::c(nd),
            x_lay: Layout::c(1),
            y_lay: Layout::c(1),
            sto: StoCombo::OO,
            alias_table: None,
            ctor_unchecked: false,
            broadcast_lanes: false,
        }
    }
    pub fn dynamic(mut self, d: bool) -> Self {
        self.dynamic = d;
        self
    }
    /// make x and y aliased views of one table (same first element, strides 1 and 2); the table
    /// has 2*ny-1 >= nx elements; x and y are set to the values the views will show
    pub fn aliased_axes(mut self, table: Array1<T>, nx: usize, ny: usize) -> Self {
        assert!(table.len() >= nx && table.len() >= 2 * ny - 1);
        self.x = Some(table.iter().take(nx).copied().collect());
        self.y = Some(table.iter().step_by(2).take(ny).copied().collect());
        self.alias_table = Some(table);
        self.sto = StoCombo::VV;
        self
    }
    pub fn axis_x(&self) -> Vec<T> {
        match &self.x {
            Some(x) => x.to_vec(),
            None => (0..self.data.shape().first().copied().unwrap_or(0))
                .map(|i| T::of(i as f64))
                .collect(),
        }
    }
    pub fn axis_y(&self) -> Vec<T> {
        match &self.y {
            Some(y) => y.to_vec(),
            None => (0..self.data.shape().get(1).copied().unwrap_or(0))
                .map(|i| T::of(i as f64))
                .collect(),
        }
    }
    pub fn lane_shape(&self) -> Vec<usize> {
        self.data.shape().iter().skip(2).copied().collect()
    }
    pub fn n_lanes(&self) -> usize {
        self.lane_shape().iter().product()
    }
    pub fn dim_name(&self) -> String {
        if self.dynamic {
            format!("IxDyn({})", self.data.ndim())
        } else {
            format!("Ix{}", self.data.ndim())
        }
    }
}

/// static dimension type of a query array
#[derive(Clone, Copy, Debug, PartialEq, Eq, Hash)]
pub enum QKind {
    S0,
    S1,
    S2,
    S3,
    S4,
    Dyn,
}

impl QKind {
    pub fn for_rank(rank: usize) -> QKind {
        match rank {
            0 => QKind::S0,
            1 => QKind::S1,
            2 => QKind::S2,
            3 => QKind::S3,
            4 => QKind::S4,
            _ => QKind::Dyn,
        }
    }
    pub fn static_rank(&self) -> Option<usize> {
        match self {
            QKind::S0 => Some(0),
            QKind::S1 => Some(1),
            QKind::S2 => Some(2),
            QKind::S3 => Some(3),
            QKind::S4 => Some(4),
            QKind::Dyn => None,
        }
    }
    pub fn name(&self) -> &'static str {
        match self {
            QKind::S0 => "Ix0",
            QKind::S1 => "Ix1",
            QKind::S2 => "Ix2",
            QKind::S3 => "Ix3",
            QKind::S4 => "Ix4",
            QKind::Dyn => "IxDyn",
        }
    }
}

/// a query array: logical values + memory layout + static dimension type
#[derive(Clone, Debug)]
pub struct Query<T> {
    pub mat: Mat<T>,
    pub kind: QKind,
}

impl<T: Flt> Query<T> {
    pub fn new(values: &ArrayD<T>, kind: QKind) -> Self {
        Query {
            mat: Mat::plain(values),
            kind,
        }
    }
    pub fn from_vec(v: Vec<T>, shape: &[usize], kind: QKind) -> Self {
        let a = ArrayD::from_shape_vec(IxDyn(shape), v).unwrap();
        Self::new(&a, kind)
    }
    pub fn with_layout(values: &ArrayD<T>, kind: QKind, lay: &Layout) -> Self {
        Query {
            mat: Mat::new(values, lay, |k| T::sentinel(k ^ 0x5151)),
            kind,
        }
    }
    /// `reduced` (length 1 along some axes) broadcast to `full`: a zero-stride view
    pub fn broadcast(reduced: &ArrayD<T>, full: &[usize], kind: QKind) -> Self {
        Query {
            mat: Mat::broadcast(reduced, full, &Layout::c(full.len()), |k| T::sentinel(k ^ 0x5151)),
            kind,
        }
    }
    pub fn is_broadcast(&self) -> bool {
        self.mat.stored.is_some()
    }
    pub fn shape(&self) -> &[usize] {
        &self.mat.shape
    }
    pub fn values(&self) -> ArrayD<T> {
        self.mat.view().to_owned()
    }
    pub fn name(&self) -> String {
        format!(
            "{}{:?}/{}",
            self.kind.name(),
            self.mat.shape,
            if self.mat.stored.is_some() { "broadcast".to_string() } else { self.mat.lay.class() }
        )
    }
}
