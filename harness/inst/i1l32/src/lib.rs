//! instantiations of the interpolator zoo: linear / f32 (see vh-core::dynapi)
vh_core::def_with1!(with, f32, linear, [oo lean] [oo lean] [oo lean] [oo lean] [oo lean] [oo lean] [oo lean]);
