//! C03 - the cubic spline honours the selected boundary conditions (unique spline).
//! The offline checker compares every returned value with an independent exact spline
//! (moment formulation, check "value") and evaluates end-condition residuals of exact
//! cubic fits of the returned end-interval samples (check "bc").

use vh::report::*;
use vh::work::spline_case;
use vh::*;

fn main() {
    let args = Args::parse("C03");
    let n = args.budget(500, 60000);
    let ev = run_sharded(&args, n, |case, ev, log| {
        if case % 4 == 3 {
            spline_case::<f32>("C03", &["value", "bc"], case, &args, ev, log)
        } else {
            spline_case::<f64>("C03", &["value", "bc"], case, &args, ev, log)
        }
    });
    ev.finish(
        &args,
        "random spline data sets as for C02; every ordered pair of the 5 single-end conditions \
         (gate: all 25 observed), Periodic, whole-data-set variants, random per-lane Individual \
         arrays; 20% with extrapolation and outside queries. Non-trivial = non-uniform axis, or \
         n = 3, or a non-zero derivative value; distinct by hash of axis, data, boundary.",
        J::obj(),
    );
}
