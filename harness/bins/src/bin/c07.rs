//! C07 - a periodic spline with extrapolation is evaluated as a periodic function.
//! The driver queries x + k*P and the neighbourhood of the range ends and of their
//! periodic images; the offline checker wraps the *float* query exactly and compares with
//! the exact periodic spline (check "value", periodic branch) with a Lipschitz-aware bound.

use vh::cases::*;
use vh::events::*;
use vh::gen::*;
use vh::ndarray::{Array1, ArrayD, Axis, IxDyn};
use vh::report::*;
use vh::spec::*;
use vh::work::*;
use vh::*;

fn run_case<T: Elem>(case: u64, args: &Args, ev: &mut Ev, log: &mut EventLog) {
    let mut rng = Rng::derive(args.seed, "C07", &[case]);
    // n = 3 (special branch), 4 (smallest general), larger
    let n = match case % 4 {
        0 => 3,
        1 => 4,
        _ if case % 50 == 47 => *rng.pick(&[257usize, 300, 513, 1025]),
        _ => pick_n(&mut rng, 3, 30),
    };
    let class = *rng.pick(&AxisClass::SMOOTH);
    let mut x: Vec<T> = gen_axis(&mut rng, n, class, &AxisOpts::spline());
    // a share of the axes starts exactly at 0 (then x - x0 is exact for every query, and the
    // wrap of even the farthest query is decided by the exact remainder)
    if case % 5 == 3 {
        let x0 = x[0];
        let shifted: Vec<T> = x.iter().map(|v| *v - x0).collect();
        if shifted.iter().zip(&x).all(|(s, v)| *s + x0 == *v) && shifted.windows(2).all(|w| w[0] < w[1]) {
            x = shifted;
        }
    }
    let lanes = if n > 100 { vec![] } else { gen_lane_shape(&mut rng, 2, false) };
    let mut shape = vec![n];
    shape.extend(&lanes);
    let dclass = *rng.pick(&DataClass::ALL);
    let mut data: ArrayD<T> = gen_data(&mut rng, &shape, dclass, (-40, 40));
    let first = data.index_axis(Axis(0), 0).to_owned();
    data.index_axis_mut(Axis(0), n - 1).assign(&first);
    let mut spec = Spec1::new(
        data,
        Some(Array1::from(x.clone())),
        Strat1::Spline {
            extrapolate: true,
            boundary: Bound::Periodic,
        },
    );
    spec.dynamic = rng.chance(0.2);
    let _ = IxDyn(&[]);

    let x0 = x[0];
    let xn = x[n - 1];
    let p = xn - x0;
    let ks: &[f64] = if T::MANT == 23 {
        &[1.0, -1.0, 2.0, -2.0, 10.0, -10.0, 1.0e3, -1.0e3]
    } else {
        &[1.0, -1.0, 2.0, -2.0, 10.0, -10.0, 1.0e3, -1.0e3, 1.0e6, -1.0e6]
    };
    let mut base = spline_queries(&mut rng, &x, 4);
    if n > 100 {
        // make sure the first and last intervals are well represented
        let m = base.len();
        let tail: Vec<T> = base.iter().copied().filter(|v| *v >= x[n - 3] || *v <= x[2]).collect();
        base.extend(tail.iter().cycle().take(m.min(200)).copied());
    }
    let mut q: Vec<T> = Vec::new();
    // x + k P over the sample set (sub-sampled to keep the batch moderate)
    for &k in ks {
        for _ in 0..(if n > 100 { 40 } else { 6 }) {
            let b = *rng.pick(&base);
            q.push(b + T::of(k) * p);
        }
        // images of both range ends and a few ulps on either side
        for end in [x0, xn] {
            let img = end + T::of(k) * p;
            q.push(img);
            q.push(img.up());
            q.push(img.down());
            q.push(img.up().up().up());
            q.push(img.down().down().down());
        }
    }
    // queries so far out that neighbouring floats are a period or more apart
    let far: &[i32] = if T::MANT == 23 { &[24, 25, 30, 60, 120] } else { &[53, 54, 60, 80, 200, 1000] };
    for &e in far {
        for m in [1.0, -1.0, 1.37, -1.61] {
            q.push(T::pow2(e) * T::of(m));
        }
    }
    q.push(T::of(if T::MANT == 23 { 1.0e8 } else { 1.7e18 }));
    q.push(T::of(if T::MANT == 23 { -3.0e9 } else { -4.1e17 }));
    ev.add("far_queries", (far.len() * 4 + 2) as u64);
    // the range ends themselves and their neighbours
    for end in [x0, xn] {
        q.push(end);
        q.push(end.up());
        q.push(end.down());
        q.push(end.up().up());
        q.push(end.down().down());
    }
    q.retain(|v| v.is_finite());
    let uniform = is_uniform(&x);
    let h = hash_bits(
        &[&bits_of(&x), &bits_of_arr(&spec.data), &bits_of(&q)],
        &[T::NAME, &spec.dim_name()],
    );
    ev.case(h, true);
    ev.count("axis_class", class.name());
    ev.count("n_class", n_class(n, 3));
    ev.count("uniform", if uniform { "uniform" } else { "non-uniform" });
    ev.count("x0_sign", if x0.f() < 0.0 { "negative" } else if x0.f() == 0.0 { "zero" } else { "positive" });
    ev.count("elem", T::NAME);
    build1(&spec, |r| {
        let Ok(interp) = r else {
            ev.violation(
                "C07:build-failed",
                &format!("valid periodic data rejected: {}", r.err().unwrap().detail()),
                case,
                spec1_json(&spec),
            );
            return;
        };
        match query_all1(&mut rng, interp, &spec, &q) {
            Err(f) => ev.violation(
                "C07:finite-query-rejected",
                &f,
                case,
                spec1_json(&spec).set("queries", hexes(q.iter().copied())),
            ),
            Ok((used, res, entry)) => {
                ev.count("entry", entry);
                ev.add("queries", used.len() as u64);
                ev.sample(|| {
                    J::obj()
                        .set("case", case)
                        .set("spec", spec1_json(&spec))
                        .set("queries", hexes(used.iter().copied().take(30)))
                });
                log.push(&event1("C07", case, &spec, &used, &res, entry, &["value"]));
            }
        }
    });
}

/// The periodic images while several threads share the interpolator: each thread keeps
/// repeating its own far-away query (so that anything remembered between calls gets hit) and
/// now and then asks the others' queries; every answer must equal, bit for bit, what a fresh
/// single-threaded interpolator answers.
fn shared_periodic(ev: &mut Ev, seed: u64, iters: usize) {
    use vh::ndarray_interp::interp1d::cubic_spline::{BoundaryCondition, CubicSpline};
    use vh::ndarray_interp::interp1d::Interp1D;
    let mut rng = Rng::derive(seed, "C07-shared-periodic", &[0]);
    for round in 0..3u64 {
        let n = 5 + rng.below(12);
        let mut pos = rng.irange(-8, 8) as f64 * 0.5;
        let x: Array1<f64> = (0..n)
            .map(|_| {
                let v = pos;
                pos += 0.125 * (1 + rng.below(12)) as f64;
                v
            })
            .collect();
        let mut data: Vec<f64> = (0..n).map(|_| rng.f01() * 10.0 - 5.0).collect();
        data[n - 1] = data[0];
        let p = x[n - 1] - x[0];
        let mk = || Interp1D::builder(Array1::from(data.clone())).x(x.clone()).strategy(CubicSpline::new().extrapolate(true).boundary(BoundaryCondition::Periodic)).build().unwrap();
        let pool: Vec<f64> = (0..16)
            .map(|k| {
                let base = x[0] + rng.f01() * p;
                let periods = *rng.pick(&[1.0, -1.0, 2.0, -3.0, 10.0, -17.0, 1000.0, -1.0e6]);
                if k % 4 == 3 { base } else { base + periods * p }
            })
            .collect();
        let reference: Vec<u64> = {
            let fresh = mk();
            pool.iter().map(|&q| fresh.interp_scalar(q).unwrap().to_bits()).collect()
        };
        let shared = mk();
        let threads = 8;
        let barrier = std::sync::Barrier::new(threads);
        let seeds: Vec<u64> = (0..threads).map(|_| rng.next_u64()).collect();
        let bad: Vec<Option<(usize, f64)>> = std::thread::scope(|s| {
            let hs: Vec<_> = seeds
                .iter()
                .enumerate()
                .map(|(t, &sd)| {
                    let (pool, reference, barrier, shared) = (&pool, &reference, &barrier, &shared);
                    s.spawn(move || {
                        let mut r = Rng::new(sd);
                        barrier.wait();
                        for _ in 0..iters {
                            let k = if r.chance(0.7) { (t * 2) % pool.len() } else { r.below(pool.len()) };
                            let got = shared.interp_scalar(pool[k]).unwrap();
                            if got.to_bits() != reference[k] {
                                return Some((k, got));
                            }
                        }
                        None
                    })
                })
                .collect();
            hs.into_iter().map(|h| h.join().expect("thread panicked")).collect()
        });
        ev.add("shared_periodic_queries", (threads * iters) as u64);
        if let Some((k, got)) = bad.into_iter().flatten().next() {
            ev.violation(
                "C07:depends-on-concurrent-callers",
                &format!(
                    "periodic spline on {:?} shared by {threads} threads: S({:?}) = {got:?}, but {:?} on a fresh single-threaded interpolator",
                    x.to_vec(),
                    pool[k],
                    f64::from_bits(reference[k])
                ),
                9_960_000 + round,
                J::obj().set("phase", "shared-periodic"),
            );
            return;
        }
    }
}

fn main() {
    let args = Args::parse("C07");
    let n = args.budget(600, 60000);
    let ev = run_sharded(&args, n, |case, ev, log| {
        if case % 5 == 4 {
            run_case::<f32>(case, &args, ev, log)
        } else {
            run_case::<f64>(case, &args, ev, log)
        }
    });
    let mut ev = ev;
    if args.blocks() && !cfg!(miri) {
        shared_periodic(&mut ev, args.seed, if args.thorough() { 1_000_000 } else { 150_000 });
    }
    ev.finish(
        &args,
        "periodic data sets (n = 3, 4 and up to 30; uniform and non-uniform axes; first axis value of \
         either sign; 0..2 trailing axes), extrapolation on; queries x + k*P for k in +-{1,2,10,1e3,1e6} \
         (f32: up to 1e3), images of both range ends and floats 1..3 ulps on either side of them. \
         Every case is non-trivial; distinct by hash of axis, data and queries.",
        J::obj(),
    );
}
