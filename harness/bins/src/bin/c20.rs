//! C20 - Linear and Bilinear results depend only on the bracketing data points.
//! In-process, differential: for each query every non-bracketing data value is replaced by
//! NaN / +-inf / huge / random values and every non-bracketing axis value is moved strictly
//! between its neighbours; the result must not change in any bit.

use vh::cases::*;
use vh::events::*;
use vh::gen::*;
use vh::ndarray::{Array1, ArrayD, IxDyn};
use vh::report::*;
use vh::spec::*;
use vh::*;

fn poison<T: Flt>(rng: &mut Rng) -> T {
    let big = if T::MANT == 23 { 1.0e30 } else { 1.0e300 };
    match rng.below(6) {
        0 => T::nan(),
        1 => T::infinity(),
        2 => T::neg_infinity(),
        3 => T::of(big),
        4 => T::of(-big),
        _ => T::of(rng.f01() * 2000.0 - 1000.0),
    }
}

/// linear-scan bracket: x[i] <= q < x[i+1]; end intervals outside; last interval for q = last
fn scan<T: Flt>(x: &[T], q: T) -> usize {
    let n = x.len();
    let mut i = 0;
    while i + 2 < n && x[i + 1] <= q {
        i += 1;
    }
    i
}

/// move every axis value except those at `keep` strictly between its neighbours
fn perturb_axis<T: Flt>(rng: &mut Rng, x: &[T], keep: &[usize]) -> (Vec<T>, usize) {
    let n = x.len();
    let mut out = x.to_vec();
    let mut moved = 0;
    for k in 0..n {
        if keep.contains(&k) {
            continue;
        }
        let lo = if k == 0 {
            let span = x[n - 1] - x[0];
            x[0] - span * T::of(0.5 + rng.f01())
        } else {
            out[k - 1]
        };
        let hi = if k == n - 1 {
            let span = x[n - 1] - x[0];
            x[n - 1] + span * T::of(0.5 + rng.f01())
        } else {
            x[k + 1]
        };
        // a value strictly inside (lo, hi), if there is one
        let cand = lo + (hi - lo) * T::of(0.05 + 0.9 * rng.f01());
        if cand > lo && cand < hi && cand.is_finite() {
            if cand != x[k] {
                moved += 1;
            }
            out[k] = cand;
        }
    }
    (out, moved)
}

fn case1<T: Elem>(case: u64, args: &Args, ev: &mut Ev) {
    let mut rng = Rng::derive(args.seed, "C20", &[case]);
    let extrapolate = rng.chance(0.4);
    let (spec, lab) = gen_linear_case::<T>(
        &mut rng,
        &LinearOpts {
            extrapolate,
            max_n: if case % 10 == 6 { 40 } else { 14 },
            // every eighth case: up to six trailing axes (data of seven axes exist only as IxDyn)
            max_lane_rank: if case % 8 == 4 { 6 } else { 2 },
            extreme_magnitudes: true,
            ..Default::default()
        },
    );
    let mut spec = spec;
    if spec.data.ndim() > 6 {
        spec.dynamic = true;
        ev.add("data_of_seven_axes_cases", 1);
    }
    let x = spec.axis();
    let n = x.len();
    let lanes = spec.n_lanes();
    let mut qs = queries_in_range(&mut rng, &x, 4);
    if extrapolate {
        qs.extend(queries_outside(&mut rng, &x, 100.0, 6));
    }
    rng.shuffle(&mut qs);
    qs.truncate(14);
    let h = hash_bits(&[&bits_of(&x), &bits_of_arr(&spec.data)], &[T::NAME, &spec.dim_name()]);
    ev.case(h, n >= 3);
    ev.count("strategy", "Linear");
    ev.count("axis_class", &lab.axis);
    ev.count("extrapolate", if extrapolate { "on" } else { "off" });
    ev.count("elem", T::NAME);
    if lanes == 0 {
        return;
    }
    let base: Vec<Outcome<ArrayD<T>>> = build1(&spec, |r| match r {
        Ok(i) => qs.iter().map(|&q| i.one(q)).collect(),
        Err(_) => Vec::new(),
    });
    if base.is_empty() {
        ev.violation("C20:build-failed", "valid data rejected", case, spec1_json(&spec));
        return;
    }
    for (k, &q) in qs.iter().enumerate() {
        let Outcome::Ok(a) = &base[k] else {
            ev.violation("C20:query-failed", &format!("q={q:?}: {}", base[k].detail()), case, spec1_json(&spec));
            return;
        };
        let i = scan(&x, q);
        let mut flat: Vec<T> = spec.data.iter().copied().collect();
        let mut poisoned = 0;
        for row in 0..n {
            if row == i || row == i + 1 {
                continue;
            }
            for l in 0..lanes {
                flat[row * lanes + l] = poison(&mut rng);
                poisoned += 1;
            }
        }
        let (x2, moved) = if rng.chance(0.7) {
            perturb_axis(&mut rng, &x, &[i, i + 1])
        } else {
            (x.clone(), 0)
        };
        let mut spec_b = spec.clone();
        spec_b.data = ArrayD::from_shape_vec(IxDyn(spec.data.shape()), flat).unwrap();
        spec_b.x = Some(Array1::from(x2.clone()));
        let b = build1(&spec_b, |r| match r {
            Ok(i) => i.one(q),
            Err(o) => Outcome::Err("build".into(), o.detail()),
        });
        ev.add("queries_compared", 1);
        ev.add("values_poisoned", poisoned);
        ev.add("axis_values_moved", moved as u64);
        ev.count("bracket_position", if i == 0 { "first" } else if i == n - 2 { "last" } else { "interior" });
        let same = match &b {
            Outcome::Ok(b) => vh::flt::arr_bits_eq(a, b),
            _ => false,
        };
        if !same {
            ev.violation(
                "C20:depends-on-non-bracketing-point",
                &format!(
                    "q={q:?} bracket [{i},{}]: result {:?} became {} after poisoning {poisoned} other values and moving {moved} other axis values",
                    i + 1,
                    a.iter().collect::<Vec<_>>(),
                    match &b {
                        Outcome::Ok(b) => format!("{:?}", b.iter().collect::<Vec<_>>()),
                        o => o.detail(),
                    }
                ),
                case,
                spec1_json(&spec)
                    .set("q", q.hex())
                    .set("poisoned_data", hexes(spec_b.data.iter().copied()))
                    .set("moved_axis", hexes(x2.iter().copied())),
            );
            return;
        }
        ev.sample(|| {
            J::obj()
                .set("case", case)
                .set("q", q.f())
                .set("bracket", J::arr(vec![i, i + 1]))
                .set("axis", J::arr(x.iter().map(|v| J::Num(v.f())).collect::<Vec<_>>()))
                .set("moved_axis", J::arr(x2.iter().map(|v| J::Num(v.f())).collect::<Vec<_>>()))
                .set("values_poisoned", poisoned)
        });
    }
}

fn case2<T: Elem>(case: u64, args: &Args, ev: &mut Ev) {
    let mut rng = Rng::derive(args.seed, "C20", &[case]);
    let extrapolate = rng.chance(0.4);
    let (spec, lab) = gen_grid_case::<T>(
        &mut rng,
        &GridOpts {
            extrapolate,
            max_nx: 7,
            max_ny: 6,
            max_lane_rank: 2,
            extreme_magnitudes: true,
            ..Default::default()
        },
    );
    let mut spec = spec;
    // sometimes x and y are two views of one table (same first element, strides 1 and 2)
    let aliased = case % 7 == 3 && T::MANT == 52;
    if aliased {
        let (nx, ny) = (spec.data.shape()[0], spec.data.shape()[1]);
        let table = vh::cases::gen_alias_table::<T>(&mut rng, nx, ny, false);
        if spec.data.ndim() != 3 {
            spec.dynamic = true;
        }
        spec = spec.aliased_axes(Array1::from(table), nx, ny);
        ev.add("aliased_axes_cases", 1);
    }
    let x = spec.axis_x();
    let y = spec.axis_y();
    let (nx, ny) = (x.len(), y.len());
    let lanes = spec.n_lanes();
    let h = hash_bits(&[&bits_of(&x), &bits_of(&y), &bits_of_arr(&spec.data)], &[T::NAME, &spec.dim_name()]);
    ev.case(h, nx >= 3 || ny >= 3);
    ev.count("strategy", "Bilinear");
    ev.count("axis_class", &lab.axis_x);
    ev.count("extrapolate", if extrapolate { "on" } else { "off" });
    ev.count("elem", T::NAME);
    if lanes == 0 {
        return;
    }
    let mut qs: Vec<(T, T)> = Vec::new();
    for _ in 0..6 {
        qs.push((rand_in(&mut rng, x[0], x[nx - 1]), rand_in(&mut rng, y[0], y[ny - 1])));
    }
    qs.push((x[rng.below(nx)], y[rng.below(ny)]));
    qs.push((x[rng.below(nx)], rand_in(&mut rng, y[0], y[ny - 1])));
    qs.push((x[nx - 1], y[ny - 1]));
    {
        // queries exactly on the diagonal qx == qy, where the two ranges overlap
        let lo = if x[0] > y[0] { x[0] } else { y[0] };
        let hi = if x[nx - 1] < y[ny - 1] { x[nx - 1] } else { y[ny - 1] };
        if lo < hi {
            for _ in 0..(if aliased { 8 } else { 4 }) {
                let q = rand_in(&mut rng, lo, hi);
                qs.push((q, q));
            }
            for k in 0..nx.min(4) {
                if x[k] >= lo && x[k] <= hi {
                    qs.push((x[k], x[k]));
                }
            }
            ev.add("diagonal_query_cases", 1);
        }
    }
    if extrapolate {
        let ox = queries_outside(&mut rng, &x, 50.0, 3);
        let oy = queries_outside(&mut rng, &y, 50.0, 3);
        for k in 0..3 {
            qs.push((ox[k], oy[k + 1]));
            qs.push((ox[k + 1], rand_in(&mut rng, y[0], y[ny - 1])));
        }
    }
    let base: Vec<Outcome<ArrayD<T>>> = build2(&spec, |r| match r {
        Ok(i) => qs.iter().map(|&(a, b)| i.one(a, b)).collect(),
        Err(_) => Vec::new(),
    });
    if base.is_empty() {
        ev.violation("C20:build-failed", "valid grid rejected", case, spec2_json(&spec));
        return;
    }
    for (k, &(qx, qy)) in qs.iter().enumerate() {
        let Outcome::Ok(a) = &base[k] else {
            ev.violation("C20:query-failed", &format!("q=({qx:?},{qy:?}): {}", base[k].detail()), case, spec2_json(&spec));
            return;
        };
        let i = scan(&x, qx);
        let j = scan(&y, qy);
        let mut flat: Vec<T> = spec.data.iter().copied().collect();
        let mut poisoned = 0;
        for r in 0..nx {
            for c in 0..ny {
                if (r == i || r == i + 1) && (c == j || c == j + 1) {
                    continue;
                }
                for l in 0..lanes {
                    flat[(r * ny + c) * lanes + l] = poison(&mut rng);
                    poisoned += 1;
                }
            }
        }
        let (x2, mx) = perturb_axis(&mut rng, &x, &[i, i + 1]);
        let (y2, my) = perturb_axis(&mut rng, &y, &[j, j + 1]);
        let mut spec_b = spec.clone();
        spec_b.data = ArrayD::from_shape_vec(IxDyn(spec.data.shape()), flat).unwrap();
        spec_b.x = Some(Array1::from(x2));
        spec_b.y = Some(Array1::from(y2));
        spec_b.alias_table = None;
        let b = build2(&spec_b, |r| match r {
            Ok(i) => i.one(qx, qy),
            Err(o) => Outcome::Err("build".into(), o.detail()),
        });
        ev.add("queries_compared", 1);
        ev.add("values_poisoned", poisoned);
        ev.add("axis_values_moved", (mx + my) as u64);
        let same = match &b {
            Outcome::Ok(b) => vh::flt::arr_bits_eq(a, b),
            _ => false,
        };
        if !same {
            ev.violation(
                "C20:depends-on-non-bracketing-point",
                &format!(
                    "q=({qx:?},{qy:?}) cell [{i},{j}]: result {:?} became {} after poisoning {poisoned} other nodes",
                    a.iter().collect::<Vec<_>>(),
                    match &b {
                        Outcome::Ok(b) => format!("{:?}", b.iter().collect::<Vec<_>>()),
                        o => o.detail(),
                    }
                ),
                case,
                spec2_json(&spec).set("qx", qx.hex()).set("qy", qy.hex()),
            );
            return;
        }
    }
}

/// The same property while several threads share the interpolator, on long axes (thousands of
/// knots): every row that brackets none of the pool's queries is poisoned with NaN; each answer
/// must equal, bit for bit, what a single-threaded interpolator over the clean data gives.
fn shared_long_axis(ev: &mut Ev, seed: u64, iters: usize) {
    use vh::ndarray::Array2;
    use vh::ndarray_interp::interp1d::{Interp1D, Linear};
    let mut rng = Rng::derive(seed, "C20-shared-long-axis", &[0]);
    for (round, n) in [4600usize, 9000, 300, 40000, 70000].into_iter().enumerate() {
        let mut pos = -7.25;
        let mut x: Array1<f64> = (0..n)
            .map(|_| {
                let v = pos;
                pos += 0.125 * (1 + rng.below(16)) as f64;
                v
            })
            .collect();
        // the longest axes end (and start) with a data gap much wider than the mean spacing
        if n >= 40000 {
            let span = x[n - 1] - x[0];
            x[n - 1] += span * 0.03;
            x[0] -= span * 0.01;
        }
        let clean: Array2<f64> = Array2::from_shape_fn((n, 2), |(i, l)| ((i * 37 + l * 11) % 101) as f64 * 0.375 - 9.0 + i as f64 * 0.001);
        let mut pool: Vec<f64> = (0..20).map(|_| x[0] + rng.f01() * (x[n - 1] - x[0])).collect();
        // the first and the last interval are always in the pool
        for t in [0.1, 0.6] {
            pool.push(x[0] + (x[1] - x[0]) * t);
            pool.push(x[n - 2] + (x[n - 1] - x[n - 2]) * t);
        }
        let reference: Vec<Vec<u64>> = {
            let a = Interp1D::builder(clean.clone()).x(x.clone()).strategy(Linear::new()).build().unwrap();
            pool.iter().map(|&q| a.interp(q).unwrap().iter().map(|v| v.to_bits()).collect()).collect()
        };
        let mut poisoned = clean.clone();
        let xs = x.to_vec();
        let keep: std::collections::HashSet<usize> = pool.iter().flat_map(|&q| { let i = scan(&xs, q); [i, i + 1] }).collect();
        let mut n_poisoned = 0u64;
        for i in 0..n {
            if !keep.contains(&i) {
                poisoned.row_mut(i).fill(f64::NAN);
                n_poisoned += 1;
            }
        }
        let shared = Interp1D::builder(poisoned).x(x.clone()).strategy(Linear::new()).build().unwrap();
        let threads = 8;
        let barrier = std::sync::Barrier::new(threads);
        let seeds: Vec<u64> = (0..threads).map(|_| rng.next_u64()).collect();
        let bad: Vec<Option<(usize, Vec<f64>)>> = std::thread::scope(|s| {
            let hs: Vec<_> = seeds
                .iter()
                .map(|&sd| {
                    let (pool, reference, barrier, shared) = (&pool, &reference, &barrier, &shared);
                    s.spawn(move || {
                        let mut r = Rng::new(sd);
                        barrier.wait();
                        for _ in 0..iters {
                            let k = r.below(pool.len());
                            let got = shared.interp(pool[k]).unwrap();
                            if !got.iter().zip(&reference[k]).all(|(a, b)| a.to_bits() == *b) {
                                return Some((k, got.to_vec()));
                            }
                        }
                        None
                    })
                })
                .collect();
            hs.into_iter().map(|h| h.join().expect("thread panicked")).collect()
        });
        ev.add("shared_long_axis_queries", (threads * iters) as u64);
        ev.add("values_poisoned", n_poisoned * 2);
        if let Some((k, got)) = bad.into_iter().flatten().next() {
            ev.violation(
                "C20:depends-on-non-bracketing-point",
                &format!(
                    "{n}-knot axis shared by {threads} threads, every non-bracketing row NaN: q={:?} gave {:?}, the clean single-threaded interpolator {:?}",
                    pool[k],
                    got,
                    reference[k].iter().map(|b| f64::from_bits(*b)).collect::<Vec<_>>()
                ),
                9_950_000 + round as u64,
                J::obj().set("n", n).set("phase", "shared-long-axis"),
            );
            return;
        }
    }
}

fn main() {
    let args = Args::parse("C20");
    let n = args.budget(600, 200000);
    let ev = run_sharded(&args, n, |case, ev, _log| {
        let f32_ = case % 5 == 4;
        match (case % 2, f32_) {
            (0, false) => case1::<f64>(case, &args, ev),
            (0, true) => case1::<f32>(case, &args, ev),
            (_, false) => case2::<f64>(case, &args, ev),
            (_, true) => case2::<f32>(case, &args, ev),
        }
    });
    let mut ev = ev;
    if args.blocks() && !cfg!(miri) {
        shared_long_axis(&mut ev, args.seed, if args.thorough() { 1_000_000 } else { 150_000 });
    }
    ev.finish(
        &args,
        "Linear / Bilinear data sets (all axis classes incl. ulp-clusters), in range and extrapolated; \
         per query: every row (node) outside the bracket (cell) replaced by NaN, +-inf, +-huge or random \
         values and every non-bracketing axis value moved strictly between its neighbours; results \
         compared bitwise. Non-trivial = at least 3 axis points (something to poison); distinct by \
         input hash.",
        J::obj(),
    );
}
