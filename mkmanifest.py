#!/usr/bin/env python3
"""Generate /verif/MANIFEST.json from checks_conf.py (run after changing the configuration)."""
import json
import os
import subprocess
import sys

VERIF = os.path.dirname(os.path.abspath(__file__))
sys.path.insert(0, VERIF)
from checks_conf import PROPS, TEXT  # noqa: E402

props = [json.loads(l) for l in open(os.path.join(VERIF, "properties.jsonl"))]
hook_commits = subprocess.run(["git", "-C", "/repo", "log", "--format=%H", "--grep=^verif hook"],
                              stdout=subprocess.PIPE, text=True).stdout.split()
checks = []
na = []
for p in props:
    pid = p["id"]
    if pid not in PROPS:
        na.append({"property_id": pid, "reason": "no check built yet"})
        continue
    t = TEXT[pid]
    checks.append({
        "property_id": pid,
        "quick_cmd": f"./check {pid} quick",
        "thorough_cmd": f"./check {pid} thorough",
        "evidence_file": f"/verif/evidence/{pid}.json",
        "replay_cmd_template": f"./check {pid} --replay {{path}}",
        "engine": "vh-monitors",
        "level_claimed": {"category": "exploration", "text": t["level"], "design_ref": f"DESIGN.md section 4 (row {pid}), sections 5.2a/5.2b (workload classes)"},
        "level_note": t["note"],
        "technique": t["technique"],
    })
man = {
    "version": 1,
    "setup_cmd": "./check setup",
    "hooks": {
        "guard": "ndarray_interp_verif",
        "enable": "RUSTFLAGS='--cfg ndarray_interp_verif' (set by ./check for every leg except Miri, where the hook is "
                  "off and Miri itself is the oracle); the hook logs and checks every cast_unchecked call",
        "baseline_off_cmd": "cd /repo && cargo test --workspace --no-fail-fast --offline",
        "source_commits": hook_commits,
        "add_only": True,
    },
    "engines": [{
        "name": "vh-monitors",
        "path": "/verif/check",
        "serves_properties": [c["property_id"] for c in checks],
        "kind_free_text": "runtime monitoring: Rust drivers (harness/) execute the real crate under generated, "
                          "enumerated and hostile workloads with in-process monitors (bitwise differential checks, "
                          "shadow models, sentinel windows, recording user strategies, cast hook, thread traces); an "
                          "offline exact-rational checker (oracle/) judges the recorded event log; sanitizer legs "
                          "(Miri, AddressSanitizer, valgrind memcheck, ThreadSanitizer) run the same drivers",
    }],
    "checks": checks,
    "not_applicable": na,
    "notes": "Verdicts: exit 0 held on everything explored / exit 1 VIOLATION lines / exit 2 inconclusive (never a verdict). "
             "VERIF_SEED selects the random stream; VERIF_REPO aims the checks at another tree (self-test). "
             "Known findings: /verif/known_findings.json (all repaired by fix: commits; none open).",
}
with open(os.path.join(VERIF, "MANIFEST.json"), "w") as f:
    json.dump(man, f, indent=1)
print(f"wrote MANIFEST.json: {len(checks)} checks, {len(na)} not applicable")
