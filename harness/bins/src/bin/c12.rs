//! C12 - monotonic_prop classifies every vector correctly and never calls NaN data rising.
//! In-process: independent classifier (counts of <, =, > among consecutive pairs);
//! exhaustive over all relation words up to a bound, realised as f64 / f32 / i32 / i64,
//! contiguous / strided / reversed views; every NaN placement in short vectors.

use vh::ndarray::{s, Array1};
use vh::ndarray_interp::vector_extensions::{Monotonic, VectorExtensions};
use vh::outcome::guard;
use vh::report::*;
use vh::*;

#[derive(Clone, Copy, Debug, PartialEq, Eq)]
enum Cls {
    RisingStrict,
    Rising,
    FallingStrict,
    Falling,
    Not,
}

fn of(m: &Monotonic) -> Cls {
    match m {
        Monotonic::Rising { strict: true } => Cls::RisingStrict,
        Monotonic::Rising { strict: false } => Cls::Rising,
        Monotonic::Falling { strict: true } => Cls::FallingStrict,
        Monotonic::Falling { strict: false } => Cls::Falling,
        Monotonic::NotMonotonic => Cls::Not,
    }
}

/// the reference: counts of the three relations
fn reference(word: &[u8]) -> Cls {
    let lt = word.iter().filter(|&&c| c == 0).count();
    let eq = word.iter().filter(|&&c| c == 1).count();
    let gt = word.iter().filter(|&&c| c == 2).count();
    if word.is_empty() {
        return Cls::Not;
    }
    match (lt > 0, eq > 0, gt > 0) {
        (true, false, false) => Cls::RisingStrict,
        (true, true, false) => Cls::Rising,
        (false, false, true) => Cls::FallingStrict,
        (false, true, true) => Cls::Falling,
        _ => Cls::Not,
    }
}

fn values(word: &[u8]) -> Vec<i64> {
    let mut v = vec![0i64];
    for &c in word {
        let last = *v.last().unwrap();
        v.push(match c {
            0 => last + 1,
            1 => last,
            _ => last - 1,
        });
    }
    v
}

trait Num4: Copy + std::fmt::Debug + PartialOrd + 'static {
    const NAME: &'static str;
    fn from_i(i: i64) -> Self;
    /// 15 strictly increasing values reaching both ends of the type's range (for floats
    /// including both infinities)
    fn palette() -> [Self; 15];
    /// the two zeros of a float type (they compare equal but differ in their bits); None for integers
    fn zeros() -> Option<(Self, Self)>;
    fn classify(a: &Array1<Self>, view: usize) -> Result<Cls, String>;
}

macro_rules! impl_num4 {
    ($t:ty, $name:expr, $off:expr, $zeros:expr, $pal:expr) => {
        impl Num4 for $t {
            const NAME: &'static str = $name;
            fn from_i(i: i64) -> Self {
                (i + $off) as $t
            }
            fn palette() -> [Self; 15] {
                $pal
            }
            fn zeros() -> Option<(Self, Self)> {
                $zeros
            }
            fn classify(a: &Array1<Self>, view: usize) -> Result<Cls, String> {
                let n = a.len();
                match view {
                    0 => guard(|| of(&a.monotonic_prop())),
                    1 => {
                        // every second element of a larger array
                        let mut big = Array1::<$t>::from_elem(2 * n + 1, 77 as $t);
                        for i in 0..n {
                            big[2 * i] = a[i];
                        }
                        let v = big.slice(s![..2 * n;2]);
                        guard(|| of(&v.monotonic_prop()))
                    }
                    _ => {
                        // reversed view of the reversed contents
                        let rev: Array1<$t> = a.iter().rev().copied().collect();
                        let v = rev.slice(s![..;-1]);
                        guard(|| of(&v.monotonic_prop()))
                    }
                }
            }
        }
    };
}
impl_num4!(f64, "f64", 0, Some((-0.0, 0.0)), [f64::NEG_INFINITY, f64::MIN, -1e300, -1e10, -1.0, -1e-300, -5e-324, 0.0, 5e-324, 1e-300, 1.0, 1e10, 1e300, f64::MAX, f64::INFINITY]);
impl_num4!(f32, "f32", 0, Some((-0.0, 0.0)), [f32::NEG_INFINITY, f32::MIN, -1e30, -1e10, -1.0, -1e-30, -1e-45, 0.0, 1e-45, 1e-30, 1.0, 1e10, 1e30, f32::MAX, f32::INFINITY]);
impl_num4!(i32, "i32", 0, None, [i32::MIN, i32::MIN + 1, -2_000_000_000, -1_000_000_000, -65536, -2, -1, 0, 1, 2, 65536, 1_000_000_000, 2_000_000_000, i32::MAX - 1, i32::MAX]);
impl_num4!(i64, "i64", 0, None, [i64::MIN, i64::MIN + 1, -6_000_000_000_000_000_000, -(1 << 53) - 1, -(1 << 31), -2, -1, 0, 1, 2, 1 << 31, (1 << 53) + 1, 6_000_000_000_000_000_000, i64::MAX - 1, i64::MAX]);
impl_num4!(u32, "u32", 1000, None, [0, 1, 2, 3, 100, 65535, 65536, 1_000_000_000, (1 << 31) - 1, 1 << 31, (1 << 31) + 1, 3_000_000_000, 4_000_000_000, u32::MAX - 1, u32::MAX]);
impl_num4!(u64, "u64", 1000, None, [0, 1, 2, 3, 100, 65535, 1 << 32, (1 << 53) + 1, (1 << 63) - 1, 1 << 63, (1 << 63) + 1, 12_000_000_000_000_000_000, 18_000_000_000_000_000_000, u64::MAX - 1, u64::MAX]);

/// the same relation word realised with values from both ends of the type's range: the lowest
/// level of the walk becomes the smallest value (-inf for floats), the highest the largest (+inf)
fn extreme_values<N: Num4>(word: &[u8]) -> Option<Vec<N>> {
    let levels = values(word);
    let (lo, hi) = (*levels.iter().min().unwrap(), *levels.iter().max().unwrap());
    let m = (hi - lo + 1) as usize;
    if m > 15 {
        return None;
    }
    let pal = N::palette();
    Some(
        levels
            .iter()
            .map(|&l| {
                let r = (l - lo) as usize;
                pal[if r < m / 2 { r } else { 15 - (m - r) }]
            })
            .collect(),
    )
}

/// the same relation word with its ties realised by the two zeros of a float type: the walk is
/// shifted so that the first tie lies on level 0, and the elements on level 0 take the signs
/// -0, +0, -0, .. (or +0, -0, ..) in turn. -0.0 == +0.0, so the word - and the class - is unchanged.
fn signed_zero_values<N: Num4>(word: &[u8], start_negative: bool) -> Option<Vec<N>> {
    let (neg, pos) = N::zeros()?;
    let first_tie = word.iter().position(|&c| c == 1)?;
    let levels = values(word);
    let off = levels[first_tie];
    let mut next_negative = start_negative;
    Some(
        levels
            .iter()
            .map(|&l| {
                if l == off {
                    let z = if next_negative { neg } else { pos };
                    next_negative = !next_negative;
                    z
                } else {
                    N::from_i(l - off)
                }
            })
            .collect(),
    )
}

fn check_word<N: Num4>(word: &[u8], ev: &mut Ev, case: u64, views: &[usize]) {
    let vals = values(word);
    for start_negative in [true, false] {
        if let Some(sz) = signed_zero_values::<N>(word, start_negative) {
            let a: Array1<N> = Array1::from(sz);
            ev.add("classifications", 1);
            ev.add("signed_zero_tie_classifications", 1);
            match N::classify(&a, views[0]) {
                Ok(got) if got == reference(word) => {}
                other => {
                    ev.violation(
                        "C12:misclassified",
                        &format!("{} vector {:?} (view {}; ties between -0.0 and +0.0): expected {:?}, got {:?}", N::NAME, a.to_vec(), views[0], reference(word), other),
                        case,
                        J::obj().set("elem", N::NAME).set("values", format!("{:?}", a.to_vec())).set("view", views[0]),
                    );
                }
            }
        }
    }
    let arr: Array1<N> = vals.iter().map(|&i| N::from_i(i)).collect();
    let want = reference(word);
    // the same word at the ends of the type's range (infinite ties, steps wider than MAX)
    if let Some(ext) = extreme_values::<N>(word) {
        let a: Array1<N> = Array1::from(ext);
        ev.add("classifications", 1);
        ev.add("extreme_value_classifications", 1);
        match N::classify(&a, views[0]) {
            Ok(got) if got == want => {}
            other => {
                ev.violation(
                    "C12:misclassified",
                    &format!("{} vector {:?} (view {}): expected {:?}, got {:?}", N::NAME, a.to_vec(), views[0], want, other),
                    case,
                    J::obj().set("elem", N::NAME).set("values", format!("{:?}", a.to_vec())).set("view", views[0]),
                );
            }
        }
    }
    for &view in views {
        ev.add("classifications", 1);
        match N::classify(&arr, view) {
            Ok(got) if got == want => {}
            other => {
                ev.violation(
                    "C12:misclassified",
                    &format!(
                        "{} vector {:?} (view {}): expected {:?}, got {:?}",
                        N::NAME,
                        vals,
                        view,
                        want,
                        other
                    ),
                    case,
                    J::obj()
                        .set("elem", N::NAME)
                        .set("values", J::arr(vals.clone()))
                        .set("view", view),
                );
            }
        }
    }
}

/// "... so such an axis can never pass builder validation": every short relation word, with and
/// without a NaN, as the axis of an Interp1D and as x / y of an Interp2D - owned, as views, and
/// as two views of one table (same first element and length, different strides)
fn builder_clause(ev: &mut Ev) {
    use vh::ndarray::{Array2, ArrayView1};
    use vh::ndarray_interp::interp1d::Interp1D;
    use vh::ndarray_interp::interp2d::Interp2D;
    let strictly_rising = |v: &[f64]| v.len() >= 2 && v.windows(2).all(|w| w[0] < w[1]);
    let mut verdict = |what: String, built: Result<bool, String>, valid: bool, ev: &mut Ev, id: u64| {
        ev.add("builder_clause_builds", 1);
        match built {
            Ok(ok) if ok == valid => {}
            other => ev.violation(
                "C12:invalid-axis-passes-builder",
                &format!("{what}: build() -> {:?}, axis valid = {valid}", other.map(|ok| if ok { "Ok" } else { "Err" })),
                id,
                J::obj().set("what", what.as_str()),
            ),
        }
    };
    let mut id = 7_000_000u64;
    // all words of 1..4 pairs, plain and with a NaN at each position
    for len in 1..=4usize {
        for idx in 0..3usize.pow(len as u32) {
            let mut k = idx;
            let word: Vec<u8> = (0..len).map(|_| { let c = (k % 3) as u8; k /= 3; c }).collect();
            let plain: Vec<f64> = values(&word).iter().map(|&i| i as f64 * 0.5).collect();
            // the word as it stands, and with its ties realised as (-0.0, +0.0) / (+0.0, -0.0)
            let mut realisations = vec![plain];
            realisations.extend(signed_zero_values::<f64>(&word, true));
            realisations.extend(signed_zero_values::<f64>(&word, false));
            for (base, nan_at) in realisations.iter().enumerate().flat_map(|(r, b)| {
                let n = if r == 0 { b.len() } else { 0 };
                std::iter::once((b, None)).chain((0..n).map(move |p| (b, Some(p))))
            }) {
                if base.iter().any(|z| *z == 0.0 && z.is_sign_negative()) {
                    ev.add("builder_clause_signed_zero_axes", 1);
                }
                let mut v = base.clone();
                if let Some(p) = nan_at {
                    v[p] = f64::NAN;
                }
                let valid = strictly_rising(&v);
                let n = v.len();
                id += 1;
                let a = Array1::from(v.clone());
                let d1 = Array1::<f64>::zeros(n);
                verdict(format!("Interp1D axis {v:?} (owned)"), guard(|| Interp1D::builder(d1.clone()).x(a.clone()).build().is_ok()), valid, ev, id);
                verdict(format!("Interp1D axis {v:?} (view)"), guard(|| Interp1D::builder(d1.view()).x(a.view()).build().is_ok()), valid, ev, id);
                let good = Array1::from((0..n).map(|i| i as f64).collect::<Vec<_>>());
                let d2 = Array2::<f64>::zeros((n, n));
                verdict(format!("Interp2D y axis {v:?}, x valid"), guard(|| Interp2D::builder(d2.view()).x(good.view()).y(a.view()).build().is_ok()), valid, ev, id);
                verdict(format!("Interp2D x axis {v:?}, y valid"), guard(|| Interp2D::builder(d2.view()).x(a.view()).y(good.view()).build().is_ok()), valid, ev, id);
                // y = every second element of a table whose first n elements are a valid x
                let mut table: Vec<f64> = vec![0.0; 2 * n - 1];
                // t[2j] = v[j] fixes t[0], t[2], ..; x = t[..n] must be valid: fill the odd
                // positions in between if possible, otherwise skip
                for (j, &val) in v.iter().enumerate() {
                    table[2 * j] = val;
                }
                for j in (1..2 * n - 1).step_by(2) {
                    table[j] = (table[j - 1] + table[j + 1]) / 2.0;
                }
                let t = Array1::from(table);
                let x: ArrayView1<f64> = t.slice(s![..n]);
                if strictly_rising(&x.to_vec()) {
                    let y = t.slice(s![..;2]);
                    ev.add("builder_clause_aliased", 1);
                    verdict(
                        format!("Interp2D y axis {v:?} = t[..;2], x = t[..{n}] of the same table (valid)"),
                        guard(|| Interp2D::builder(d2.view()).x(x).y(y).build().is_ok()),
                        valid,
                        ev,
                        id,
                    );
                }
            }
        }
    }
    // long axes with a single defect (tie / swapped pair / NaN) at EVERY position: a validation
    // that works block-wise (or samples) and skips a pair lets such an axis through
    let mut long_id = 7_600_000u64;
    for &n in &[512usize, 513, 768, 1025] {
        let good = Array1::from((0..n).map(|i| i as f64).collect::<Vec<_>>());
        let d1 = Array1::<f64>::zeros(n);
        let dx = Array2::<f64>::zeros((n, 2));
        let dy = Array2::<f64>::zeros((2, n));
        let two = Array1::from(vec![0.0f64, 1.0]);
        verdict(format!("Interp1D valid axis 0..{n}"), guard(|| Interp1D::builder(d1.view()).x(good.view()).build().is_ok()), true, ev, 7_600_000);
        verdict(format!("Interp2D valid x axis 0..{n}"), guard(|| Interp2D::builder(dx.view()).x(good.view()).y(two.view()).build().is_ok()), true, ev, 7_600_000);
        verdict(format!("Interp2D valid y axis 0..{n}"), guard(|| Interp2D::builder(dy.view()).x(two.view()).y(good.view()).build().is_ok()), true, ev, 7_600_000);
        for pos in 0..n - 1 {
            for defect in 0..3 {
                let mut v = good.clone();
                match defect {
                    0 => v[pos + 1] = v[pos],
                    1 => v.swap(pos, pos + 1),
                    _ => v[pos] = f64::NAN,
                }
                let what = ["tie", "swapped pair", "NaN"][defect];
                long_id += 1;
                let id = long_id;
                ev.add("builder_clause_long_axes", 1);
                verdict(format!("Interp1D axis of {n} knots, {what} at {pos} (owned)"), guard(|| Interp1D::builder(d1.view()).x(v.clone()).build().is_ok()), false, ev, id);
                verdict(format!("Interp1D axis of {n} knots, {what} at {pos} (view)"), guard(|| Interp1D::builder(d1.view()).x(v.view()).build().is_ok()), false, ev, id);
                verdict(format!("Interp2D x axis of {n} knots, {what} at {pos}"), guard(|| Interp2D::builder(dx.view()).x(v.view()).y(two.view()).build().is_ok()), false, ev, id);
                verdict(format!("Interp2D y axis of {n} knots, {what} at {pos}"), guard(|| Interp2D::builder(dy.view()).x(two.view()).y(v.view()).build().is_ok()), false, ev, id);
            }
        }
    }
    // aliased views where the invalid part lies beyond x: x = t[..n] rising, y = t[..;2] runs
    // into a NaN / a fall / a tie
    let mut rng = Rng::derive(12, "C12-builder-aliased", &[0]);
    for round in 0..300u64 {
        let n = 2 + rng.below(5);
        let mut t: Vec<f64> = (0..2 * n - 1).map(|i| i as f64 * 0.5 + 1.0).collect();
        let p = n + rng.below(n - 1);
        match round % 3 {
            0 => t[p] = f64::NAN,
            1 => t[p] = t[p - 1] - 3.0,
            _ => t[p] = t[if p >= 2 { p - 2 } else { 0 }],
        }
        let t = Array1::from(t);
        let (x, y) = (t.slice(s![..n]), t.slice(s![..;2]));
        let valid = strictly_rising(&y.to_vec());
        let d2 = Array2::<f64>::zeros((n, n));
        ev.add("builder_clause_aliased", 1);
        verdict(
            format!("Interp2D x = t[..{n}] (valid), y = t[..;2] = {:?} of the same table", y.to_vec()),
            guard(|| Interp2D::builder(d2.view()).x(x).y(y).build().is_ok()),
            valid,
            ev,
            7_500_000 + round,
        );
    }
}

fn main() {
    let args = Args::parse("C12");
    let max_pairs: usize = args
        .extra_u64("max-pairs")
        .map(|v| v as usize)
        .unwrap_or(if args.thorough() { 13 } else { 9 });
    // case id = word length (number of pairs) so that the work is sharded by length
    let ev = run_sharded(&args, (max_pairs + 1) as u64 * 3, |case, ev, _log| {
        let len = (case / 3) as usize;
        let part = case % 3; // split each length in three parts by the first symbol
        if len == 0 {
            if part == 0 {
                // vectors of length 0 and 1
                for n in 0..2usize {
                    let vals: Vec<i64> = (0..n as i64).collect();
                    macro_rules! short {
                        ($t:ty) => {{
                            let a: Array1<$t> = vals.iter().map(|&i| <$t as Num4>::from_i(i)).collect();
                            for view in 0..3 {
                                ev.add("classifications", 1);
                                match <$t as Num4>::classify(&a, view) {
                                    Ok(Cls::Not) => {}
                                    other => ev.violation(
                                        "C12:short-vector",
                                        &format!("vector of length {n} classified as {:?}", other),
                                        case,
                                        J::obj().set("len", n).set("elem", <$t as Num4>::NAME),
                                    ),
                                }
                            }
                        }};
                    }
                    short!(f64);
                    short!(f32);
                    short!(i32);
                    short!(i64);
                    short!(u32);
                    short!(u64);
                    ev.case(n as u64 ^ 0x77, true);
                }
            }
            return;
        }
        let total = 3usize.pow(len as u32 - 1);
        let mut word = vec![0u8; len];
        for idx in 0..total {
            word[0] = part as u8;
            let mut k = idx;
            for slot in word.iter_mut().skip(1) {
                *slot = (k % 3) as u8;
                k /= 3;
            }
            let views: &[usize] = if len <= 7 { &[0, 1, 2] } else { &[0] };
            check_word::<f64>(&word, ev, case, views);
            if len <= 10 {
                check_word::<f32>(&word, ev, case, &[0]);
                check_word::<i32>(&word, ev, case, &[0]);
                check_word::<i64>(&word, ev, case, &[0]);
            }
            if len <= 8 {
                check_word::<u32>(&word, ev, case, &[0]);
                check_word::<u64>(&word, ev, case, &[0]);
            }
            let h = word.iter().fold(len as u64, |h, &c| h.wrapping_mul(3).wrapping_add(c as u64 + 1));
            let lt = word.contains(&0);
            let gt = word.contains(&2);
            let eq = word.contains(&1);
            ev.case(h, (lt as u8 + gt as u8 + eq as u8) >= 2);
            ev.add("words", 1);
            ev.count("expected_class", format!("{:?}", reference(&word)));
            if idx % 20011 == 0 {
                ev.sample(|| {
                    J::obj()
                        .set("relation_word", word.iter().map(|c| ["<", "=", ">"][*c as usize]).collect::<String>())
                        .set("values", J::arr(values(&word)))
                        .set("expected", format!("{:?}", reference(&word)))
                });
            }
        }
        ev.count("word_lengths_completed", format!("{len}:{part}"));
    });
    let mut ev = ev;

    // NaN placements: every subset of positions, vectors up to length 8, three carriers
    let mut nan_vectors = 0u64;
    for n in 1..=8usize {
        for carrier in 0..3 {
            for mask in 1u32..(1 << n) {
                let base: Vec<f64> = (0..n)
                    .map(|i| match carrier {
                        0 => i as f64,
                        1 => -(i as f64),
                        _ => 1.0,
                    })
                    .collect();
                let v64: Array1<f64> = base
                    .iter()
                    .enumerate()
                    .map(|(i, &b)| if mask >> i & 1 == 1 { f64::NAN } else { b })
                    .collect();
                let v32: Array1<f32> = v64.mapv(|a| a as f32);
                nan_vectors += 1;
                let r64 = guard(|| of(&v64.monotonic_prop()));
                let r32 = guard(|| of(&v32.monotonic_prop()));
                let rrev = {
                    let rev: Array1<f64> = v64.iter().rev().copied().collect();
                    let v = rev.slice(s![..;-1]);
                    guard(|| of(&v.monotonic_prop()))
                };
                for (name, r) in [("f64", r64), ("f32", r32), ("f64-reversed-view", rrev)] {
                    ev.add("nan_classifications", 1);
                    match r {
                        Ok(Cls::RisingStrict) | Ok(Cls::Rising) | Err(_) => ev.violation(
                            "C12:nan-called-rising",
                            &format!("{name} vector {:?} containing NaN classified as {:?}", v64, r),
                            0,
                            J::obj().set("values", format!("{:?}", v64)),
                        ),
                        _ => {}
                    }
                }
            }
        }
    }
    ev.add("nan_vectors", nan_vectors);

    // long vectors with a single defect (tie / reversed step) at every position, and NaN at
    // every position: catches block-wise or vectorised implementations that skip pairs
    let mut systematic = 0u64;
    for &len in &[17usize, 32, 33, 64, 65, 100, 129] {
        for carrier in [0u8, 2u8] {
            for pos in 0..len {
                for defect in [1u8, 2 - carrier] {
                    let mut word = vec![carrier; len];
                    word[pos] = defect;
                    check_word::<f64>(&word, &mut ev, 2_000_000 + systematic, &[0]);
                    check_word::<i32>(&word, &mut ev, 2_000_000 + systematic, &[2]);
                    systematic += 1;
                }
            }
            // NaN at every position of a strictly ordered carrier
            for pos in 0..=len {
                let mut v: Vec<f64> = values(&vec![carrier; len]).iter().map(|&i| i as f64).collect();
                v[pos] = f64::NAN;
                let a: Array1<f64> = Array1::from(v);
                ev.add("nan_classifications", 1);
                match guard(|| of(&a.monotonic_prop())) {
                    Ok(Cls::RisingStrict) | Ok(Cls::Rising) | Err(_) => ev.violation(
                        "C12:nan-called-rising",
                        &format!("vector of length {} with NaN at position {pos} classified as rising", len + 1),
                        2_500_000 + pos as u64,
                        J::obj().set("len", len + 1).set("nan_position", pos).set("carrier", carrier as u32),
                    ),
                    _ => {}
                }
            }
        }
    }
    // very long vectors: a single defect at positions around multiples of 8 (block boundaries)
    for &len in &[256usize, 257, 512, 1024, 1025] {
        for carrier in [0u8, 2u8] {
            for pos in (0..len).filter(|p| matches!(p % 8, 0 | 1 | 7)) {
                let mut word = vec![carrier; len];
                word[pos] = if pos % 2 == 0 { 1 } else { 2 - carrier };
                check_word::<f64>(&word, &mut ev, 3_000_000 + systematic, &[0]);
                systematic += 1;
            }
        }
    }
    ev.add("systematic_long_vectors", systematic);

    // random long vectors
    let mut rng = Rng::derive(args.seed, "C12-long", &[0]);
    let long_n = args.budget(300, 10000);
    for k in 0..long_n {
        let len = 50 + rng.below(5000);
        // mostly rising with rare ties / drops so that all classes occur
        let mode = rng.below(5);
        let mut word = Vec::with_capacity(len);
        let special = rng.below(len);
        for i in 0..len {
            word.push(match mode {
                0 => 0,
                1 => 2,
                2 => {
                    if i == special {
                        1
                    } else {
                        0
                    }
                }
                3 => {
                    if i == special {
                        0
                    } else {
                        2
                    }
                }
                _ => {
                    if rng.chance(0.01) {
                        1
                    } else {
                        2
                    }
                }
            } as u8);
        }
        check_word::<f64>(&word, &mut ev, 1_000_000 + k, &[0]);
        check_word::<i64>(&word, &mut ev, 1_000_000 + k, &[2]);
        ev.add("long_vectors", 1);
    }
    if args.blocks() {
        builder_clause(&mut ev);
    }
    // plateaus (runs of ties) of every length 1..70 at the start, in the middle and at the end
    // of a rising / falling vector with 1..20 strict steps on the other side(s)
    if args.only.map_or(true, |o| (3_000_000..4_000_000).contains(&o)) && args.shard == 0 {
        let mut k = 0u64;
        for run in 1..=70usize {
            for steps in 1..=20usize {
                for place in 0..3u8 {
                    for dir in [0u8, 2u8] {
                        k += 1;
                        let ties = vec![1u8; run];
                        let strict = vec![dir; steps];
                        let word: Vec<u8> = match place {
                            0 => [ties.clone(), strict.clone()].concat(),
                            1 => [strict.clone(), ties.clone(), strict.clone()].concat(),
                            _ => [strict.clone(), ties.clone()].concat(),
                        };
                        check_word::<f64>(&word, &mut ev, 3_000_000 + k, &[0, 2]);
                        if k % 7 == 0 {
                            check_word::<i32>(&word, &mut ev, 3_000_000 + k, &[0]);
                            check_word::<f32>(&word, &mut ev, 3_000_000 + k, &[0]);
                        }
                        ev.add("plateau_vectors", 1);
                    }
                }
            }
        }
    }
    let complete = (1..=max_pairs).all(|l| (0..3).all(|p| ev.hist_get("word_lengths_completed", &format!("{l}:{p}")) == 1));
    let expect_words: u64 = (1..=max_pairs as u32).map(|l| 3u64.pow(l)).sum();
    ev.finish(
        &args,
        "every sequence of consecutive-pair relations (<, =, >) up to the stated number of pairs, \
         realised as f64 (all lengths; contiguous, strided and reversed views up to 7 pairs) and f32 / \
         i32 / i64 (up to 10 pairs); vectors of length 0 and 1; every NaN placement (all subsets of \
         positions) in vectors up to length 8 over rising / falling / flat carriers; random long \
         vectors. Non-trivial = the word contains at least two different relations; distinct = \
         distinct relation words.",
        J::obj()
            .set("exhaustive_done", complete && args.only.is_none() && ev.get("words") == expect_words)
            .set("max_pairs", max_pairs)
            .set("expected_words", expect_words),
    );
}
