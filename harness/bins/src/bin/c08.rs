//! C08 - every lane of n-dimensional data is interpolated independently.
//! In-process: lane j's results are bit-identical when all other lanes (values and
//! boundary conditions) are replaced by hostile values. Offline: lane j's results are
//! checked as a single-lane problem against the exact oracle. Bit-identity with a
//! per-lane interpolator is recorded as an observation (required only up to rounding).

use vh::cases::*;
use vh::events::*;
use vh::gen::*;
use vh::ndarray::{Array1, ArrayD, IxDyn};
use vh::report::*;
use vh::spec::*;
use vh::*;

fn hostile<T: Flt>(rng: &mut Rng, finite_only: bool) -> T {
    let big = if T::MANT == 23 { 1.0e30 } else { 1.0e300 };
    match rng.below(if finite_only { 3 } else { 7 }) {
        0 => T::of(rng.f01() * 200.0 - 100.0),
        1 => T::of(big),
        2 => T::of(-big),
        3 => T::nan(),
        4 => T::infinity(),
        5 => T::neg_infinity(),
        _ => T::of(0.0),
    }
}

fn lane_column<T: Flt>(flat: &[T], lanes: usize, j: usize) -> Vec<T> {
    flat.iter().skip(j).step_by(lanes).copied().collect()
}

fn pick_query_kind(rng: &mut Rng) -> QKind {
    *rng.pick(&[QKind::S0, QKind::S1, QKind::S1, QKind::S2, QKind::S3, QKind::Dyn])
}

fn case1<T: Elem>(case: u64, spline: bool, args: &Args, ev: &mut Ev, log: &mut EventLog) {
    let mut rng = Rng::derive(args.seed, "C08", &[case]);
    let many_lanes = spline && case % 40 == 7;
    let (mut spec, lab) = if many_lanes {
        // hundreds of lanes, every lane with its own (pairwise different) boundary condition
        let lane_shape: Vec<usize> = match (case / 40) % 4 {
            0 => vec![300],
            1 => vec![20, 16],
            2 => vec![3, 100],
            _ => vec![257],
        };
        let n = 4 + rng.below(4);
        let x: Vec<T> = gen_axis(&mut rng, n, AxisClass::DyadicRandom, &AxisOpts::spline());
        let mut shape = vec![n];
        shape.extend(&lane_shape);
        let data = gen_data::<T>(&mut rng, &shape, DataClass::FullMantissa, (0, 0));
        let lanes: usize = lane_shape.iter().product();
        let rows: Vec<RB<T>> = (0..lanes)
            .map(|l| match l % 3 {
                0 => RB::Mixed(SB::FirstDeriv(T::of(l as f64 * 0.125 - 7.0)), SB::NotAKnot),
                1 => RB::Mixed(SB::SecondDeriv(T::of(1.0 + l as f64 * 0.25)), SB::FirstDeriv(T::of(-(l as f64) * 0.5))),
                _ => RB::Mixed(SB::Natural, SB::SecondDeriv(T::of(l as f64 * 0.0625))),
            })
            .collect();
        let mut bshape = vec![1usize];
        bshape.extend(&lane_shape);
        let spec = Spec1::new(
            data,
            Some(Array1::from(x.clone())),
            Strat1::Spline {
                extrapolate: false,
                boundary: Bound::Individual(ArrayD::from_shape_vec(IxDyn(&bshape), rows).unwrap()),
            },
        );
        let lab = Labels {
            axis: "dyadic-random".into(),
            data: "full-mantissa".into(),
            n_class: n_class(n, 3),
            boundary: "Individual[all lanes different]".into(),
            lanes: format!("{:?}", lane_shape),
            uniform: is_uniform(&x),
        };
        (spec, lab)
    } else if spline {
        // now and then every lane has the same kinds of end conditions (with its own values) ...
        let same_kinds = case % 15 == 10 || case % 15 == 4;
        // ... and in reserved cases all lanes carry the same data, handed over as a broadcast
        // (zero-stride) view, while every lane has its own end conditions
        let broadcast = case % 15 == 13;
        let o = SplineOpts {
            max_n: 12,
            max_lane_rank: 5,
            allow_zero_lanes: true,
            force_pair: if same_kinds { Some((3 + rng.below(2), 3 + rng.below(2))) } else if broadcast { Some((rng.below(5), rng.below(5))) } else { None },
            ..Default::default()
        };
        let (mut spec, lab) = gen_spline_case::<T>(&mut rng, &o);
        if broadcast && spec.n_lanes() > 1 && spec.x.is_some() {
            vh::dynapi::equalise_lanes(&mut spec.data, 1);
            spec.broadcast_lanes = true;
            spec.sto = if rng.chance(0.5) { StoCombo::VV } else { StoCombo::VO };
            ev.add("broadcast_lane_cases", 1);
        }
        // ... in a tiny unit, so that the lanes' values differ by less than any fixed epsilon
        if same_kinds {
            let s = T::pow2(-(56 + rng.below(8) as i32));
            spec.data.mapv_inplace(|v| v * s);
            if let Strat1::Spline { boundary, .. } = &mut spec.strat {
                *boundary = boundary.scaled(s, s);
            }
            ev.add("tiny_unit_same_kind_cases", 1);
        }
        (spec, lab)
    } else {
        let o = LinearOpts {
            max_n: 12,
            // every second Linear case: up to six trailing axes (data of seven axes, IxDyn only)
            max_lane_rank: if case % 6 == 0 { 6 } else { 5 },
            allow_zero_lanes: true,
            ..Default::default()
        };
        gen_linear_case::<T>(&mut rng, &o)
    };
    if spec.data.ndim() > 6 {
        spec.dynamic = true;
    }
    let x = spec.axis();
    let n = x.len();
    let lanes = spec.n_lanes();
    let lane_shape = spec.lane_shape();
    let qv: Vec<T> = {
        let mut q = queries_in_range(&mut rng, &x, 6);
        rng.shuffle(&mut q);
        q.truncate(24);
        q
    };
    let kind = pick_query_kind(&mut rng);
    let qa = make_query(&qv, kind, &mut rng);
    let qvals: Vec<T> = qa.values().iter().copied().collect();
    let nonsquare = lane_shape.len() >= 2 && lane_shape.windows(2).any(|w| w[0] != w[1]);
    let individual = matches!(&spec.strat, Strat1::Spline { boundary: Bound::Individual(_), .. });
    let h = hash_bits(
        &[&bits_of(&x), &bits_of_arr(&spec.data)],
        &[T::NAME, &spec.dim_name(), &spec.strat.name()],
    );
    ev.case(h, lanes >= 2 && (nonsquare || individual || !spline));
    ev.count("strategy", if spline { "CubicSpline" } else { "Linear" });
    ev.count("boundary", &lab.boundary);
    ev.count("lane_rank", format!("{}", lane_shape.len()));
    ev.count("lane_shape_class", if lanes == 0 { "zero-length" } else if nonsquare { "non-square" } else if lanes == 1 { "single" } else { "square/flat" });
    ev.count("dim", spec.dim_name());
    ev.count("query_kind", kind.name());
    ev.count("elem", T::NAME);
    if many_lanes {
        ev.add("many_lane_cases", 1);
    }

    let run = |s: &Spec1<T>| -> Outcome<ArrayD<T>> { build1(s, |r| match r {
        Ok(i) => i.many(&qa),
        Err(o) => match o {
            Outcome::Err(k, m) => Outcome::Err(format!("build:{k}"), m),
            Outcome::Panic(m) => Outcome::Panic(format!("build: {m}")),
            _ => Outcome::Untypeable,
        },
    }) };
    let res_a = match run(&spec) {
        Outcome::Ok(a) => a,
        Outcome::Untypeable => return,
        o => {
            ev.violation("C08:query-failed", &format!("valid n-d problem failed: {}", o.detail()), case, spec1_json(&spec));
            return;
        }
    };
    // shape law also for zero-length lanes
    let mut want_shape: Vec<usize> = qa.shape().to_vec();
    want_shape.extend(&lane_shape);
    if res_a.shape() != want_shape.as_slice() {
        ev.violation("C08:result-shape", &format!("result shape {:?}, expected {:?}", res_a.shape(), want_shape), case, spec1_json(&spec));
        return;
    }
    if lanes == 0 {
        ev.add("zero_lane_cases", 1);
        return;
    }
    let flat_a: Vec<T> = res_a.iter().copied().collect();
    let j = rng.below(lanes);
    let col_a = lane_column(&flat_a, lanes, j);

    // (B) all other lanes replaced by hostile values, their boundaries re-drawn
    let periodic = matches!(&spec.strat, Strat1::Spline { boundary: Bound::Periodic, .. });
    let mut spec_b = spec.clone();
    {
        let mut flat: Vec<T> = spec.data.iter().copied().collect();
        for l in 0..lanes {
            if l == j {
                continue;
            }
            let end_val: T = hostile(&mut rng, true);
            for i in 0..n {
                flat[i * lanes + l] = if periodic && (i == 0 || i == n - 1) {
                    end_val
                } else {
                    hostile(&mut rng, false)
                };
            }
        }
        spec_b.data = ArrayD::from_shape_vec(IxDyn(spec.data.shape()), flat).unwrap();
        if let Strat1::Spline { boundary: Bound::Individual(b), extrapolate } = &spec.strat {
            let mut rows: Vec<RB<T>> = b.iter().cloned().collect();
            for (l, r) in rows.iter_mut().enumerate() {
                if l != j {
                    *r = gen_row_boundary(&mut rng, 1.0, 1.0);
                }
            }
            spec_b.strat = Strat1::Spline {
                extrapolate: *extrapolate,
                boundary: Bound::Individual(ArrayD::from_shape_vec(b.raw_dim(), rows).unwrap()),
            };
        }
    }
    match run(&spec_b) {
        Outcome::Ok(b) => {
            let flat_b: Vec<T> = b.iter().copied().collect();
            let col_b = lane_column(&flat_b, lanes, j);
            ev.add("lanes_compared_under_perturbation", 1);
            ev.add("values_compared_under_perturbation", col_a.len() as u64);
            if bits_of(&col_a) != bits_of(&col_b) {
                let k = (0..col_a.len()).find(|&k| col_a[k].bits() != col_b[k].bits()).unwrap();
                ev.violation(
                    "C08:lane-depends-on-other-lanes",
                    &format!(
                        "lane {j} of {lanes} (lane shape {:?}): result for q={:?} changed from {:?} to {:?} when only other lanes were replaced",
                        lane_shape, qvals[k], col_a[k], col_b[k]
                    ),
                    case,
                    spec1_json(&spec).set("lane", j).set("perturbed_data", hexes(spec_b.data.iter().copied())),
                );
                return;
            }
        }
        o => {
            ev.violation(
                "C08:perturbed-problem-failed",
                &format!("replacing other lanes made the call fail: {}", o.detail()),
                case,
                spec1_json(&spec_b).set("lane", j),
            );
            return;
        }
    }

    // (B') many lanes: change only lane 0 (values and boundary); every other lane must stay
    // bit-identical
    if many_lanes {
        let mut spec_d = spec.clone();
        let mut flat: Vec<T> = spec.data.iter().copied().collect();
        for i in 0..n {
            flat[i * lanes] = T::of(1000.0 + i as f64 * 3.5);
        }
        spec_d.data = ArrayD::from_shape_vec(IxDyn(spec.data.shape()), flat).unwrap();
        if let Strat1::Spline { boundary: Bound::Individual(b), extrapolate } = &spec.strat {
            let mut rows: Vec<RB<T>> = b.iter().cloned().collect();
            rows[0] = RB::Mixed(SB::FirstDeriv(T::of(-123.5)), SB::SecondDeriv(T::of(77.25)));
            spec_d.strat = Strat1::Spline {
                extrapolate: *extrapolate,
                boundary: Bound::Individual(ArrayD::from_shape_vec(b.raw_dim(), rows).unwrap()),
            };
        }
        match run(&spec_d) {
            Outcome::Ok(d) => {
                let flat_d: Vec<T> = d.iter().copied().collect();
                for l in 1..lanes {
                    ev.add("lanes_compared_under_perturbation", 1);
                    let (ca, cd) = (lane_column(&flat_a, lanes, l), lane_column(&flat_d, lanes, l));
                    if bits_of(&ca) != bits_of(&cd) {
                        ev.violation(
                            "C08:lane-depends-on-other-lanes",
                            &format!("lane {l} of {lanes} (lane shape {:?}) changed when only lane 0 (values and boundary condition) was changed", lane_shape),
                            case,
                            spec1_json(&spec).set("lane", l),
                        );
                        return;
                    }
                }
            }
            o => {
                ev.violation("C08:perturbed-problem-failed", &o.detail(), case, spec1_json(&spec_d));
                return;
            }
        }
    }

    // (C) lane j alone
    let col_data: Vec<T> = spec.data.iter().skip(j).step_by(lanes).copied().collect();
    let strat_c = match &spec.strat {
        Strat1::Spline { boundary, extrapolate } => Strat1::Spline {
            extrapolate: *extrapolate,
            boundary: match boundary {
                Bound::Individual(b) => Bound::Individual(
                    ArrayD::from_shape_vec(IxDyn(&[1]), vec![b.iter().nth(j).unwrap().clone()]).unwrap(),
                ),
                o => o.clone(),
            },
        },
        o => o.clone(),
    };
    let mut spec_c = Spec1::new(
        ArrayD::from_shape_vec(IxDyn(&[n]), col_data).unwrap(),
        spec.x.clone(),
        strat_c,
    );
    spec_c.dynamic = false;
    let res_c = build1(&spec_c, |r| match r {
        Ok(i) => i.many(&qa),
        Err(_) => Outcome::Untypeable,
    });
    if let Outcome::Ok(c) = res_c {
        let col_c: Vec<T> = c.iter().copied().collect();
        ev.add("lanes_compared_with_single_lane_interpolator", 1);
        if bits_of(&col_c) == bits_of(&col_a) {
            ev.add("lanes_bit_identical_to_single_lane_interpolator", 1);
        } else {
            ev.add("lanes_differing_in_bits_from_single_lane_interpolator", 1);
        }
    } else {
        ev.violation("C08:single-lane-problem-failed", "lane j alone could not be built / queried", case, spec1_json(&spec_c));
        return;
    }
    // lane j's results as a single-lane problem for the exact checker
    let checks: &[&str] = if spline { &["value"] } else { &["line"] };
    ev.sample(|| {
        J::obj()
            .set("case", case)
            .set("lane", j)
            .set("lanes", lanes)
            .set("lane_shape", J::arr(lane_shape.clone()))
            .set("spec", spec1_json(&spec))
    });
    log.push(&event1("C08", case, &spec_c, &qvals, &col_a, "interp_array(lane of n-d)", checks));
}

fn case2<T: Elem>(case: u64, args: &Args, ev: &mut Ev, log: &mut EventLog) {
    let mut rng = Rng::derive(args.seed, "C08", &[case]);
    let o = GridOpts {
        max_nx: 6,
        max_ny: 5,
        max_lane_rank: 4,
        allow_zero_lanes: true,
        ..Default::default()
    };
    let (spec, _lab) = gen_grid_case::<T>(&mut rng, &o);
    let x = spec.axis_x();
    let y = spec.axis_y();
    let (nx, ny) = (x.len(), y.len());
    let lanes = spec.n_lanes();
    let lane_shape = spec.lane_shape();
    let mut qx = Vec::new();
    let mut qy = Vec::new();
    for _ in 0..16 {
        qx.push(rand_in(&mut rng, x[0], x[nx - 1]));
        qy.push(rand_in(&mut rng, y[0], y[ny - 1]));
    }
    qx.push(x[0]);
    qy.push(y[ny - 1]);
    qx.push(x[nx - 1]);
    qy.push(y[0]);
    let kind = pick_query_kind(&mut rng);
    let mut r2 = rng.clone();
    let qax = make_query(&qx, kind, &mut rng);
    let qay = make_query(&qy, kind, &mut r2);
    let qxv: Vec<T> = qax.values().iter().copied().collect();
    let qyv: Vec<T> = qay.values().iter().copied().collect();
    let nonsquare = lane_shape.len() >= 2 && lane_shape.windows(2).any(|w| w[0] != w[1]);
    let h = hash_bits(&[&bits_of(&x), &bits_of(&y), &bits_of_arr(&spec.data)], &[T::NAME, &spec.dim_name()]);
    ev.case(h, lanes >= 2);
    ev.count("strategy", "Bilinear");
    ev.count("lane_rank", format!("{}", lane_shape.len()));
    ev.count("lane_shape_class", if lanes == 0 { "zero-length" } else if nonsquare { "non-square" } else if lanes == 1 { "single" } else { "square/flat" });
    ev.count("dim", spec.dim_name());
    ev.count("query_kind", kind.name());
    ev.count("elem", T::NAME);
    let run = |s: &Spec2<T>| -> Outcome<ArrayD<T>> {
        build2(s, |r| match r {
            Ok(i) => i.many(&qax, &qay),
            Err(o) => match o {
                Outcome::Err(k, m) => Outcome::Err(format!("build:{k}"), m),
                Outcome::Panic(m) => Outcome::Panic(format!("build: {m}")),
                _ => Outcome::Untypeable,
            },
        })
    };
    let res_a = match run(&spec) {
        Outcome::Ok(a) => a,
        Outcome::Untypeable => return,
        o => {
            ev.violation("C08:query-failed", &format!("valid n-d grid failed: {}", o.detail()), case, spec2_json(&spec));
            return;
        }
    };
    let mut want_shape: Vec<usize> = qax.shape().to_vec();
    want_shape.extend(&lane_shape);
    if res_a.shape() != want_shape.as_slice() {
        ev.violation("C08:result-shape", &format!("result shape {:?}, expected {:?}", res_a.shape(), want_shape), case, spec2_json(&spec));
        return;
    }
    if lanes == 0 {
        ev.add("zero_lane_cases", 1);
        return;
    }
    let flat_a: Vec<T> = res_a.iter().copied().collect();
    let j = rng.below(lanes);
    let col_a = lane_column(&flat_a, lanes, j);
    let mut spec_b = spec.clone();
    let mut flat: Vec<T> = spec.data.iter().copied().collect();
    for (idx, v) in flat.iter_mut().enumerate() {
        if idx % lanes != j {
            *v = hostile(&mut rng, false);
        }
    }
    spec_b.data = ArrayD::from_shape_vec(IxDyn(spec.data.shape()), flat).unwrap();
    match run(&spec_b) {
        Outcome::Ok(b) => {
            let flat_b: Vec<T> = b.iter().copied().collect();
            let col_b = lane_column(&flat_b, lanes, j);
            ev.add("lanes_compared_under_perturbation", 1);
            ev.add("values_compared_under_perturbation", col_a.len() as u64);
            if bits_of(&col_a) != bits_of(&col_b) {
                ev.violation(
                    "C08:lane-depends-on-other-lanes",
                    &format!("lane {j} of {lanes} (lane shape {:?}) changed when only other lanes were replaced", lane_shape),
                    case,
                    spec2_json(&spec).set("lane", j),
                );
                return;
            }
        }
        o => {
            ev.violation("C08:perturbed-problem-failed", &o.detail(), case, spec2_json(&spec_b));
            return;
        }
    }
    let col_data: Vec<T> = spec.data.iter().skip(j).step_by(lanes).copied().collect();
    let mut spec_c = Spec2::new(
        ArrayD::from_shape_vec(IxDyn(&[nx, ny]), col_data).unwrap(),
        spec.x.clone(),
        spec.y.clone(),
        spec.strat.clone(),
    );
    spec_c.dynamic = false;
    if let Outcome::Ok(c) = build2(&spec_c, |r| match r {
        Ok(i) => i.many(&qax, &qay),
        Err(_) => Outcome::Untypeable,
    }) {
        let col_c: Vec<T> = c.iter().copied().collect();
        ev.add("lanes_compared_with_single_lane_interpolator", 1);
        if bits_of(&col_c) == bits_of(&col_a) {
            ev.add("lanes_bit_identical_to_single_lane_interpolator", 1);
        } else {
            ev.add("lanes_differing_in_bits_from_single_lane_interpolator", 1);
        }
    }
    let _ = Array1::<T>::zeros(0);
    log.push(&event2("C08", case, &spec_c, &qxv, &qyv, &col_a, "interp_array(lane of n-d)", &["blend"]));
}

/// a lane whose data are exactly zero (a field at rest) with prescribed end derivatives: every
/// ordered pair of end conditions for lane 0, once with all other lanes zero as well and once with
/// the other lanes non-zero - lane 0 must come out bit for bit the same, and (whenever an end
/// derivative is prescribed as non-zero) must not be the zero function
fn zero_block_gate(ev: &mut Ev) {
    let kinds = |d: f64| -> [SB<f64>; 7] {
        [SB::NotAKnot, SB::Natural, SB::Clamped, SB::FirstDeriv(d), SB::SecondDeriv(-2.0 * d), SB::FirstDeriv(0.0), SB::SecondDeriv(0.0)]
    };
    let n = 6usize;
    let x: Vec<f64> = vec![0.0, 0.5, 1.25, 2.0, 3.5, 4.0];
    let q: Vec<f64> = vec![0.0, 0.25, 0.5, 1.0, 1.9, 2.75, 3.5, 3.9, 4.0];
    let qa = Query::from_vec(q.clone(), &[q.len()], QKind::S1);
    let mut id = 9_000_000u64;
    for lane_shape in [vec![2usize], vec![1, 2], vec![2, 2], vec![3, 1], vec![1], vec![1, 1]] {
        let lanes: usize = lane_shape.iter().product();
        for (li, l) in kinds(0.75).iter().enumerate() {
            for (ri, r) in kinds(-1.5).iter().enumerate() {
                for other in [RB::NotAKnot, RB::Natural, RB::Mixed(SB::FirstDeriv(0.0), SB::SecondDeriv(0.0)), RB::Mixed(SB::Natural, SB::FirstDeriv(2.0))] {
                    id += 1;
                    let mut shape = vec![n];
                    shape.extend(&lane_shape);
                    let mut bshape = vec![1usize];
                    bshape.extend(&lane_shape);
                    let mut rows: Vec<RB<f64>> = vec![other.clone(); lanes];
                    rows[0] = RB::Mixed(l.clone(), r.clone());
                    let strat = Strat1::Spline { extrapolate: false, boundary: Bound::Individual(ArrayD::from_shape_vec(IxDyn(&bshape), rows).unwrap()) };
                    let spec_a = Spec1::new(ArrayD::<f64>::zeros(IxDyn(&shape)), Some(Array1::from(x.clone())), strat.clone());
                    let mut flat = vec![0.0f64; n * lanes];
                    for i in 0..n {
                        for lane in 1..lanes {
                            flat[i * lanes + lane] = 1.0 + (i * 3 + lane) as f64 * 0.375;
                        }
                    }
                    let spec_b = Spec1::new(ArrayD::from_shape_vec(IxDyn(&shape), flat).unwrap(), Some(Array1::from(x.clone())), strat);
                    let run = |s: &Spec1<f64>| -> Outcome<ArrayD<f64>> { build1(s, |r| match r { Ok(i) => i.many(&qa), Err(o) => match o { Outcome::Err(k, m) => Outcome::Err(format!("build:{k}"), m), Outcome::Panic(m) => Outcome::Panic(format!("build: {m}")), _ => Outcome::Untypeable } }) };
                    let what = format!("zero lane 0 of lane shape {lane_shape:?} with Mixed(kind {li}, kind {ri}), other lanes {other:?}");
                    let (a, b) = match (run(&spec_a), run(&spec_b)) {
                        (Outcome::Ok(a), Outcome::Ok(b)) => (a, b),
                        (Outcome::Untypeable, _) | (_, Outcome::Untypeable) => continue,
                        (oa, ob) => {
                            ev.violation("C08:query-failed", &format!("{what}: {} / {}", oa.detail(), ob.detail()), id, spec1_json(&spec_a));
                            return;
                        }
                    };
                    ev.add("zero_block_gate_rows", 1);
                    let (fa, fb): (Vec<f64>, Vec<f64>) = (a.iter().copied().collect(), b.iter().copied().collect());
                    let (ca, cb) = (lane_column(&fa, lanes, 0), lane_column(&fb, lanes, 0));
                    if lanes > 1 && bits_of(&ca) != bits_of(&cb) {
                        ev.violation(
                            "C08:lane-depends-on-other-lanes",
                            &format!("{what}: lane 0 = {ca:?} while the other lanes are zero, {cb:?} when they are not"),
                            id,
                            spec1_json(&spec_a),
                        );
                        return;
                    }
                    // a non-zero prescribed end slope / curvature cannot be met by the zero function
                    let prescribed = matches!(l, SB::FirstDeriv(v) | SB::SecondDeriv(v) if *v != 0.0) || matches!(r, SB::FirstDeriv(v) | SB::SecondDeriv(v) if *v != 0.0);
                    if prescribed && ca.iter().all(|v| *v == 0.0) {
                        ev.violation("C08:lane-depends-on-other-lanes", &format!("{what}: lane 0 is the zero function although a non-zero end derivative is prescribed"), id, spec1_json(&spec_a));
                        return;
                    }
                }
            }
        }
    }
}

fn main() {
    let args = Args::parse("C08");
    let n = args.budget(900, 150000);
    let ev = run_sharded(&args, n, |case, ev, log| {
        let f32_ = case % 5 == 4;
        match (case % 3, f32_) {
            (0, false) => case1::<f64>(case, false, &args, ev, log),
            (0, true) => case1::<f32>(case, false, &args, ev, log),
            (1, false) => case1::<f64>(case, true, &args, ev, log),
            (1, true) => case1::<f32>(case, true, &args, ev, log),
            (_, false) => case2::<f64>(case, &args, ev, log),
            (_, true) => case2::<f32>(case, &args, ev, log),
        }
    });
    let mut ev = ev;
    if args.blocks() {
        zero_block_gate(&mut ev);
    }
    ev.finish(
        &args,
        "n-d data with 0..5 trailing axes (non-square, length-1, length-0; Ix1..Ix6 and IxDyn), all \
         strategies incl. Individual boundary arrays with a different condition per lane, all query \
         shapes; for a random lane j: (A) vs (B = every other lane replaced by random/NaN/inf/huge \
         values and other boundaries re-drawn) bitwise, (A) lane j vs exact single-lane oracle, (A) \
         vs per-lane interpolator (bit identity counted). Non-trivial = at least 2 lanes and \
         (non-square lane shape or per-lane boundaries or not a spline); distinct by input hash.",
        J::obj(),
    );
}
