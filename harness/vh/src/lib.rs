//! `vh` - facade: vh-core plus the instantiated interpolator zoo.

pub use vh_core::*;

pub mod work;

use vh_core::dynapi::{ctor_only1, ctor_only2};
use vh_core::spec::{Spec1, Spec2, Strat1, Strat2};

/// Element types for which the interpolator zoo is instantiated.
pub trait Elem: Flt {
    fn with1(spec: &Spec1<Self>, f: &mut dyn FnMut(Built1<'_, Self>));
    fn with2(spec: &Spec2<Self>, f: &mut dyn FnMut(Built2<'_, Self>));
}

impl Elem for f64 {
    fn with1(spec: &Spec1<f64>, f: &mut dyn FnMut(Built1<'_, f64>)) {
        if !spec.dynamic && spec.data.ndim() == 0 {
            return f(Built1::CtorOnly(ctor_only1(&spec.data)));
        }
        match spec.strat {
            Strat1::Linear { .. } => i1l64::with(spec, f),
            Strat1::Spline { .. } => i1s64::with(spec, f),
            Strat1::Rec { .. } => i1r64::with(spec, f),
        }
    }
    fn with2(spec: &Spec2<f64>, f: &mut dyn FnMut(Built2<'_, f64>)) {
        if !spec.dynamic && spec.data.ndim() < 2 {
            return f(Built2::CtorOnly(ctor_only2(&spec.data)));
        }
        match spec.strat {
            Strat2::Bilinear { .. } => i2b64::with(spec, f),
            Strat2::Rec { .. } => i2r64::with(spec, f),
        }
    }
}

impl Elem for f32 {
    fn with1(spec: &Spec1<f32>, f: &mut dyn FnMut(Built1<'_, f32>)) {
        if !spec.dynamic && spec.data.ndim() == 0 {
            return f(Built1::CtorOnly(ctor_only1(&spec.data)));
        }
        match spec.strat {
            Strat1::Linear { .. } => i1l32::with(spec, f),
            Strat1::Spline { .. } => i1s32::with(spec, f),
            Strat1::Rec { .. } => i1r32::with(spec, f),
        }
    }
    fn with2(spec: &Spec2<f32>, f: &mut dyn FnMut(Built2<'_, f32>)) {
        if !spec.dynamic && spec.data.ndim() < 2 {
            return f(Built2::CtorOnly(ctor_only2(&spec.data)));
        }
        match spec.strat {
            Strat2::Bilinear { .. } => i2b32::with(spec, f),
            Strat2::Rec { .. } => i2r32::with(spec, f),
        }
    }
}

/// Build and hand over the interpolator, or the failure outcome.
pub fn build1<T: Elem, R>(
    spec: &Spec1<T>,
    mut g: impl FnMut(Result<&dyn DynInterp1<T>, Outcome<()>>) -> R,
) -> R {
    let mut out: Option<R> = None;
    T::with1(spec, &mut |b| {
        out = Some(match b {
            Built1::Interp(i) => g(Ok(i)),
            Built1::Fail(o) => g(Err(o)),
            Built1::CtorOnly(o) => g(Err(match o {
                Outcome::Ok(()) => Outcome::Untypeable,
                other => other,
            })),
        })
    });
    out.expect("builder callback not invoked")
}

pub fn build2<T: Elem, R>(
    spec: &Spec2<T>,
    mut g: impl FnMut(Result<&dyn DynInterp2<T>, Outcome<()>>) -> R,
) -> R {
    let mut out: Option<R> = None;
    T::with2(spec, &mut |b| {
        out = Some(match b {
            Built2::Interp(i) => g(Ok(i)),
            Built2::Fail(o) => g(Err(o)),
            Built2::CtorOnly(o) => g(Err(match o {
                Outcome::Ok(()) => Outcome::Untypeable,
                other => other,
            })),
        })
    });
    out.expect("builder callback not invoked")
}
