//! C06 - extrapolation continues the end polynomial and never rejects a finite query.
//! In-process: every finite query is answered; in-range results are bit-identical to the
//! extrapolate-off interpolator. Offline: outside results equal the exact end piece
//! (line / cubic / border cell form) evaluated at the query.

use vh::cases::*;
use vh::events::*;
use vh::gen::*;
use vh::report::*;
use vh::spec::*;
use vh::work::*;
use vh::*;

fn far_for<T: Flt>() -> f64 {
    if T::MANT == 23 {
        50.0
    } else {
        1.0e4
    }
}

fn case1<T: Elem>(case: u64, spline: bool, args: &Args, ev: &mut Ev, log: &mut EventLog) {
    let mut rng = Rng::derive(args.seed, "C06", &[case]);
    let (spec_on, lab) = if spline {
        let o = SplineOpts {
            allow_periodic: false,
            extrapolate: true,
            ..Default::default()
        };
        gen_spline_case::<T>(&mut rng, &o)
    } else {
        let o = LinearOpts {
            extrapolate: true,
            ..Default::default()
        };
        gen_linear_case::<T>(&mut rng, &o)
    };
    let mut spec_off = spec_on.clone();
    spec_off.strat = match &spec_on.strat {
        Strat1::Linear { .. } => Strat1::Linear { extrapolate: false },
        Strat1::Spline { boundary, .. } => Strat1::Spline {
            extrapolate: false,
            boundary: boundary.clone(),
        },
        o => o.clone(),
    };
    let x = spec_on.axis();
    let inside = if spline {
        spline_queries(&mut rng, &x, 4)
    } else {
        queries_in_range(&mut rng, &x, 4)
    };
    let outside = queries_outside(&mut rng, &x, far_for::<T>(), 14);
    let h = hash_bits(
        &[&bits_of(&x), &bits_of_arr(&spec_on.data), &bits_of(&outside)],
        &[T::NAME, &spec_on.dim_name(), &spec_on.strat.name()],
    );
    ev.case(h, true);
    count_labels(ev, &lab, T::NAME, &spec_on.dim_name());
    ev.count("strategy", if spline { "CubicSpline" } else { "Linear" });

    build1(&spec_on, |ron| {
        let Ok(on) = ron else {
            ev.violation(
                "C06:build-failed",
                "valid data set rejected",
                case,
                spec1_json(&spec_on),
            );
            return;
        };
        // (a) in range: bit-identical to the extrapolate-off interpolator
        build1(&spec_off, |roff| {
            let Ok(off) = roff else { return };
            for &q in &inside {
                let a = on.one(q);
                let b = off.one(q);
                match (&a, &b) {
                    (Outcome::Ok(a), Outcome::Ok(b)) => {
                        ev.add("inrange_compared", 1);
                        if !vh::flt::arr_bits_eq(a, b) {
                            ev.violation(
                                "C06:in-range-differs",
                                &format!("q={q:?}: extrapolate on {a:?} vs off {b:?}"),
                                case,
                                spec1_json(&spec_on).set("q", q.hex()),
                            );
                            return;
                        }
                    }
                    _ => {
                        ev.violation(
                            "C06:in-range-not-answered",
                            &format!("q={q:?}: on {} / off {}", a.detail(), b.detail()),
                            case,
                            spec1_json(&spec_on).set("q", q.hex()),
                        );
                        return;
                    }
                }
            }
        });
        // (a') a large batch mixing in-range and outside queries must be answered as a whole
        if (case / 3) % 2 == 0 {
            let sizes = [1023usize, 1024, 1025, 2000, 4097, 5000];
            let size = sizes[(case / 6) as usize % sizes.len()];
            let pool: Vec<T> = inside.iter().chain(outside.iter()).copied().collect();
            let vals: Vec<T> = (0..size).map(|i| pool[(i * 7 + 3) % pool.len()]).collect();
            for (kind, shape) in [(QKind::S1, vec![size]), (QKind::S2, vec![size / 5, 5]), (QKind::Dyn, vec![size])] {
                let n: usize = shape.iter().product();
                let qa = Query::from_vec(vals[..n].to_vec(), &shape, kind);
                match on.many(&qa) {
                    Outcome::Ok(_) => ev.add("large_batches_answered", 1),
                    Outcome::Untypeable => {}
                    o => {
                        ev.violation(
                            "C06:finite-query-rejected",
                            &format!("interp_array({}) with {n} finite queries -> {}", qa.name(), o.detail()),
                            case,
                            spec1_json(&spec_on),
                        );
                        return;
                    }
                }
            }
        }
        // (b) outside: answered, and logged for the exact end-piece comparison
        match query_all1(&mut rng, on, &spec_on, &outside) {
            Err(f) => ev.violation(
                "C06:finite-query-rejected",
                &f,
                case,
                spec1_json(&spec_on).set("queries", hexes(outside.iter().copied())),
            ),
            Ok((used, res, entry)) => {
                ev.count("entry", entry);
                ev.add("outside_answered", used.len() as u64);
                ev.sample(|| {
                    J::obj()
                        .set("case", case)
                        .set("spec", spec1_json(&spec_on))
                        .set("outside_queries", hexes(used.iter().copied()))
                });
                let checks: &[&str] = if spline { &["value"] } else { &["line"] };
                log.push(&event1("C06", case, &spec_on, &used, &res, entry, checks));
            }
        }
    });
}

fn case2<T: Elem>(case: u64, args: &Args, ev: &mut Ev, log: &mut EventLog) {
    let mut rng = Rng::derive(args.seed, "C06", &[case]);
    let o = GridOpts {
        extrapolate: true,
        ..Default::default()
    };
    let (spec_on, lab) = gen_grid_case::<T>(&mut rng, &o);
    let mut spec_off = spec_on.clone();
    spec_off.strat = Strat2::Bilinear { extrapolate: false };
    let x = spec_on.axis_x();
    let y = spec_on.axis_y();
    let far = far_for::<T>().min(1000.0);
    let ox = queries_outside(&mut rng, &x, far, 10);
    let oy = queries_outside(&mut rng, &y, far, 10);
    let mut qx = Vec::new();
    let mut qy = Vec::new();
    let mut where_ = Vec::new();
    for k in 0..ox.len().min(oy.len()) {
        // outside in x only, in y only, in both
        qx.push(ox[k]);
        qy.push(rand_in(&mut rng, y[0], y[y.len() - 1]));
        where_.push("x");
        qx.push(rand_in(&mut rng, x[0], x[x.len() - 1]));
        qy.push(oy[k]);
        where_.push("y");
        qx.push(ox[k]);
        qy.push(oy[oy.len() - 1 - k]);
        where_.push("both");
    }
    let h = hash_bits(
        &[&bits_of(&x), &bits_of(&y), &bits_of_arr(&spec_on.data), &bits_of(&qx)],
        &[T::NAME, &spec_on.dim_name()],
    );
    ev.case(h, true);
    ev.count("axis_class", &lab.axis_x);
    ev.count("elem", T::NAME);
    ev.count("dim", spec_on.dim_name());
    ev.count("strategy", "Bilinear");
    for w in &where_ {
        ev.count("outside_in", w);
    }
    build2(&spec_on, |ron| {
        let Ok(on) = ron else {
            ev.violation("C06:build-failed", "valid grid rejected", case, spec2_json(&spec_on));
            return;
        };
        build2(&spec_off, |roff| {
            let Ok(off) = roff else { return };
            for _ in 0..12 {
                let a = rand_in(&mut rng, x[0], x[x.len() - 1]);
                let b = rand_in(&mut rng, y[0], y[y.len() - 1]);
                let (a, b) = match rng.below(4) {
                    0 => (x[0], b),
                    1 => (a, y[y.len() - 1]),
                    2 => (x[x.len() - 1], y[0]),
                    _ => (a, b),
                };
                match (on.one(a, b), off.one(a, b)) {
                    (Outcome::Ok(u), Outcome::Ok(v)) => {
                        ev.add("inrange_compared", 1);
                        if !vh::flt::arr_bits_eq(&u, &v) {
                            ev.violation(
                                "C06:in-range-differs",
                                &format!("q=({a:?},{b:?}): on {u:?} vs off {v:?}"),
                                case,
                                spec2_json(&spec_on),
                            );
                            return;
                        }
                    }
                    (u, v) => {
                        ev.violation(
                            "C06:in-range-not-answered",
                            &format!("q=({a:?},{b:?}): on {} / off {}", u.detail(), v.detail()),
                            case,
                            spec2_json(&spec_on),
                        );
                        return;
                    }
                }
            }
        });
        if (case / 3) % 4 == 0 {
            let sizes = [1024usize, 1500, 4097];
            let size = sizes[(case / 12) as usize % sizes.len()];
            let vx: Vec<T> = (0..size).map(|i| qx[(i * 5 + 1) % qx.len()]).collect();
            let vy: Vec<T> = (0..size).map(|i| qy[(i * 5 + 1) % qy.len()]).collect();
            for (kind, shape) in [(QKind::S1, vec![size]), (QKind::S2, vec![size / 4, 4])] {
                let n: usize = shape.iter().product();
                let a = Query::from_vec(vx[..n].to_vec(), &shape, kind);
                let b = Query::from_vec(vy[..n].to_vec(), &shape, kind);
                match on.many(&a, &b) {
                    Outcome::Ok(_) => ev.add("large_batches_answered", 1),
                    Outcome::Untypeable => {}
                    o => {
                        ev.violation(
                            "C06:finite-query-rejected",
                            &format!("2-D interp_array({}) with {n} finite queries -> {}", a.name(), o.detail()),
                            case,
                            spec2_json(&spec_on),
                        );
                        return;
                    }
                }
            }
        }
        match query_all2(&mut rng, on, &spec_on, &qx, &qy) {
            Err(f) => ev.violation(
                "C06:finite-query-rejected",
                &f,
                case,
                spec2_json(&spec_on)
                    .set("qx", hexes(qx.iter().copied()))
                    .set("qy", hexes(qy.iter().copied())),
            ),
            Ok((ux, uy, res, entry)) => {
                ev.count("entry", entry);
                ev.add("outside_answered", ux.len() as u64);
                ev.sample(|| {
                    J::obj()
                        .set("case", case)
                        .set("spec", spec2_json(&spec_on))
                        .set("qx", hexes(ux.iter().copied()))
                        .set("qy", hexes(uy.iter().copied()))
                });
                log.push(&event2("C06", case, &spec_on, &ux, &uy, &res, entry, &["blend"]));
            }
        }
    });
}

/// integer element types: with integer knots and data whose segment slopes are whole numbers
/// the end line (and every interior line) is exact in integer arithmetic - extrapolated values
/// must lie on it exactly, for every distance from the end knot
fn integer_lines(ev: &mut Ev) {
    use vh::ndarray::{Array1, Array2};
    use vh::ndarray_interp::interp1d::{Interp1D, Linear};
    use vh::ndarray_interp::interp2d::{Bilinear, Interp2D};
    let mut rng = Rng::derive(6, "C06-integer-lines", &[0]);
    macro_rules! run {
        ($t:ty, $name:expr, $id0:expr) => {{
            for round in 0..60u64 {
                let n = 2 + rng.below(5);
                let mut xs: Vec<$t> = Vec::new();
                let mut ys: Vec<$t> = Vec::new();
                let (mut x, mut y) = (rng.irange(-50, 50) as $t, rng.irange(-100, 100) as $t);
                for _ in 0..n {
                    xs.push(x);
                    ys.push(y);
                    let dx = 1 + rng.below(12) as $t;
                    let slope = rng.irange(-9, 9) as $t;
                    x += dx;
                    y += slope * dx;
                }
                let line = |q: $t| -> $t {
                    // the segment that contains q, or the nearest end segment
                    let mut i = 0;
                    while i + 2 < n && xs[i + 1] <= q {
                        i += 1;
                    }
                    ys[i] + (ys[i + 1] - ys[i]) / (xs[i + 1] - xs[i]) * (q - xs[i])
                };
                let interp = Interp1D::builder(Array1::from(ys.clone())).x(Array1::from(xs.clone())).strategy(Linear::new().extrapolate(true)).build().unwrap();
                let span = xs[n - 1] - xs[0];
                let mut qs: Vec<$t> = (xs[0] - 3 * span - 7..=xs[0] + 2).collect();
                qs.extend(xs[n - 1] - 2..=xs[n - 1] + 3 * span + 7);
                qs.extend(xs.iter().copied());
                for &q in &qs {
                    ev.add("integer_line_queries", 1);
                    let got = vh::outcome::guard(|| interp.interp_scalar(q).map_err(|e| e.to_string()));
                    if got != Ok(Ok(line(q))) {
                        ev.violation(
                            "C06:value-extrapolated",
                            &format!("{} Linear with extrapolation, x={xs:?}, y={ys:?}, q={q}: got {:?}, the (exact integer) line gives {}", $name, got, line(q)),
                            $id0 + round,
                            J::obj().set("elem", $name).set("q", format!("{q}")),
                        );
                        break;
                    }
                }
                // Bilinear: z = y-line(x) + 3 * yy on a grid with unit y spacing
                let yy: Vec<$t> = vec![0, 1, 2];
                let g = Array2::from_shape_fn((n, 3), |(i, j)| ys[i] + 3 * yy[j]);
                let b = Interp2D::builder(g).x(Array1::from(xs.clone())).y(Array1::from(yy.clone())).strategy(Bilinear::new().extrapolate(true)).build().unwrap();
                for &q in qs.iter().step_by(3) {
                    for qy in [-4 as $t, 0, 1, 2, 7] {
                        ev.add("integer_line_queries", 1);
                        let want = line(q) + 3 * qy;
                        let got = vh::outcome::guard(|| b.interp_scalar(q, qy).map_err(|e| e.to_string()));
                        if got != Ok(Ok(want)) {
                            ev.violation(
                                "C06:value-extrapolated",
                                &format!("{} Bilinear with extrapolation, x={xs:?}, y=[0,1,2], z=line(x)+3y, q=({q},{qy}): got {:?}, exact {}", $name, got, want),
                                $id0 + 500 + round,
                                J::obj().set("elem", $name),
                            );
                            break;
                        }
                    }
                }
            }
        }};
    }
    run!(i64, "i64", 8_800_000u64);
    run!(i32, "i32", 8_810_000u64);
}

fn main() {
    let args = Args::parse("C06");
    let n = args.budget(900, 150000);
    let ev = run_sharded(&args, n, |case, ev, log| {
        let f32_ = case % 5 == 4;
        match (case % 3, f32_) {
            (0, false) => case1::<f64>(case, false, &args, ev, log),
            (0, true) => case1::<f32>(case, false, &args, ev, log),
            (1, false) => case1::<f64>(case, true, &args, ev, log),
            (1, true) => case1::<f32>(case, true, &args, ev, log),
            (_, false) => case2::<f64>(case, &args, ev, log),
            (_, true) => case2::<f32>(case, &args, ev, log),
        }
    });
    let ev = ev;
    // `integer_lines` is deliberately not run: C06 speaks of results "up to rounding", i.e. of
    // floating-point element types; an implementation that is right for f64 / f32 (e.g. the
    // t-form y1 + t*(y2-y1)) may truncate differently for integers, and the check must not
    // alarm on it (the negative control `ctl-calc-frac-t-form` showed that it would)
    let _ = integer_lines;
    ev.finish(
        &args,
        "Linear / CubicSpline (all non-periodic boundaries) / Bilinear with extrapolation on; finite \
         queries from 1 ulp to 1e4 spans (f32: 50) outside on either side, 2-D outside in x, in y, in \
         both; in-range queries compared bitwise with the extrapolate-off interpolator. Every case \
         is non-trivial (has outside queries); distinct by hash of axis, data and queries.",
        J::obj(),
    );
}
