//! C04 - Bilinear 2-D interpolation returns the exact bilinear blend of the cell.
//! The exact blend is checked offline (check "blend"); the grid-line and transpose
//! relations are checked in-process against the crate's own Linear / second Bilinear
//! interpolator.

use vh::cases::*;
use vh::events::*;
use vh::gen::*;
use vh::ndarray::{Array1, Axis};
use vh::report::*;
use vh::spec::*;
use vh::work::query_all2;
use vh::*;

fn lower(x: &[impl Flt], q: f64) -> usize {
    // linear scan bracket (harness side), end cells outside the range
    let n = x.len();
    let mut i = 0;
    while i + 2 < n && x[i + 1].f() <= q {
        i += 1;
    }
    i
}

fn run_case<T: Elem>(case: u64, args: &Args, ev: &mut Ev, log: &mut EventLog) {
    let mut rng = Rng::derive(args.seed, "C04", &[case]);
    let (spec, lab) = gen_grid_case::<T>(
        &mut rng,
        &GridOpts {
            extreme_magnitudes: true,
            ..Default::default()
        },
    );
    let mut spec = spec;
    // sometimes x and y are two views of one table (same first element, strides 1 and 2)
    let aliased = case % 9 == 4 && T::MANT == 52;
    if aliased {
        let (nx, ny) = (spec.data.shape()[0], spec.data.shape()[1]);
        let table = vh::cases::gen_alias_table::<T>(&mut rng, nx, ny, false);
        if spec.data.ndim() != 3 {
            spec.dynamic = true;
        }
        spec = spec.aliased_axes(Array1::from(table), nx, ny);
        ev.add("aliased_axes_cases", 1);
    }
    let x = spec.axis_x();
    let y = spec.axis_y();
    let (nx, ny) = (x.len(), y.len());
    // queries: all nodes (capped), grid lines, cell borders, interior, neighbours of nodes
    let mut qx: Vec<T> = Vec::new();
    let mut qy: Vec<T> = Vec::new();
    let mut kind: Vec<u8> = Vec::new(); // 0 node, 1 x on grid line, 2 y on grid line, 3 interior
    let cap = 40;
    let mut nodes: Vec<(usize, usize)> = (0..nx).flat_map(|i| (0..ny).map(move |j| (i, j))).collect();
    rng.shuffle(&mut nodes);
    for &(i, j) in nodes.iter().take(cap) {
        qx.push(x[i]);
        qy.push(y[j]);
        kind.push(0);
    }
    for _ in 0..12 {
        let i = rng.below(nx);
        qx.push(x[i]);
        qy.push(rand_in(&mut rng, y[0], y[ny - 1]));
        kind.push(1);
        let j = rng.below(ny);
        qx.push(rand_in(&mut rng, x[0], x[nx - 1]));
        qy.push(y[j]);
        kind.push(2);
    }
    for _ in 0..12 {
        qx.push(rand_in(&mut rng, x[0], x[nx - 1]));
        qy.push(rand_in(&mut rng, y[0], y[ny - 1]));
        kind.push(3);
    }
    for &(i, j) in nodes.iter().take(6) {
        let a = if rng.chance(0.5) { x[i].up() } else { x[i].down() };
        let b = if rng.chance(0.5) { y[j].up() } else { y[j].down() };
        if a >= x[0] && a <= x[nx - 1] && b >= y[0] && b <= y[ny - 1] {
            qx.push(a);
            qy.push(b);
            kind.push(3);
        }
    }
    {
        // the diagonal qx == qy (bit-identical), where the two ranges overlap
        let lo = if x[0] > y[0] { x[0] } else { y[0] };
        let hi = if x[nx - 1] < y[ny - 1] { x[nx - 1] } else { y[ny - 1] };
        if lo < hi {
            for _ in 0..10 {
                let q = rand_in(&mut rng, lo, hi);
                qx.push(q);
                qy.push(q);
                kind.push(3);
            }
            ev.add("diagonal_queries", 10);
        }
    }

    let sym = nx == ny;
    let nontrivial = !sym || nx > 2;
    let h = hash_bits(
        &[&bits_of(&x), &bits_of(&y), &bits_of_arr(&spec.data)],
        &[T::NAME, &spec.dim_name()],
    );
    ev.case(h, nontrivial);
    ev.count("axis_class_x", &lab.axis_x);
    ev.count("axis_class_y", &lab.axis_y);
    ev.count("grid", &lab.grid);
    ev.count("elem", T::NAME);
    ev.count("dim", spec.dim_name());
    ev.count("square", if sym { "square" } else { "non-square" });

    let lanes = spec.n_lanes();
    let mut logged: Option<(Vec<T>, Vec<T>, Vec<T>)> = None;
    build2(&spec, |r| {
        let interp = match r {
            Ok(i) => i,
            Err(o) => {
                ev.violation(
                    "C04:build-failed",
                    &format!("valid grid rejected: {}", o.detail()),
                    case,
                    spec2_json(&spec),
                );
                return;
            }
        };
        match query_all2(&mut rng, interp, &spec, &qx, &qy) {
            Err(f) => ev.violation("C04:query-not-answered", &f, case, spec2_json(&spec)),
            Ok((ux, uy, res, entry)) => {
                ev.count("entry", entry);
                ev.add("queries", ux.len() as u64);
                ev.add("values", res.len() as u64);
                ev.sample(|| {
                    J::obj()
                        .set("case", case)
                        .set("spec", spec2_json(&spec))
                        .set("entry", entry)
                        .set("n_queries", ux.len())
                });
                log.push(&event2("C04", case, &spec, &ux, &uy, &res, entry, &["blend"]));
                logged = Some((ux, uy, res));
            }
        }
    });
    let Some((ux, uy, res)) = logged else { return };
    if lanes == 0 {
        return;
    }
    let ulp = T::pow2(-(T::MANT as i32)).f();
    // gradual underflow: a slope that underflows is only known to one subnormal unit, and that
    // absolute error is multiplied by the distance from the lower knot (at most a cell width)
    let uf = if T::MANT == 23 { f64::powi(2.0, -149) } else { 5e-324 };
    let cell_span = |a: f64, b: f64| -> f64 {
        let i = lower(&x, a);
        let j = lower(&y, b);
        (x[i + 1].f() - x[i].f()).abs() + (y[j + 1].f() - y[j].f()).abs()
    };
    let flat: Vec<f64> = spec.data.iter().map(|v| v.f()).collect();
    let z = |i: usize, j: usize, l: usize| flat[(i * ny + j) * lanes + l];
    let cell_z = |a: f64, b: f64, l: usize| -> f64 {
        let i = lower(&x, a);
        let j = lower(&y, b);
        z(i, j, l)
            .abs()
            .max(z(i + 1, j, l).abs())
            .max(z(i, j + 1, l).abs())
            .max(z(i + 1, j + 1, l).abs())
    };

    // (1) transpose relation on the whole batch
    let mut perm: Vec<usize> = (0..spec.data.ndim()).collect();
    perm.swap(0, 1);
    let tdata = spec
        .data
        .clone()
        .permuted_axes(vh::ndarray::IxDyn(&perm))
        .as_standard_layout()
        .into_owned();
    let mut tspec = Spec2::new(
        tdata,
        Some(Array1::from(y.clone())),
        Some(Array1::from(x.clone())),
        Strat2::Bilinear { extrapolate: false },
    );
    tspec.dynamic = spec.dynamic;
    build2(&tspec, |r| {
        let Ok(ti) = r else {
            ev.violation(
                "C04:transposed-build-failed",
                "transposed grid rejected",
                case,
                spec2_json(&spec),
            );
            return;
        };
        for k in 0..ux.len() {
            let Outcome::Ok(tr) = ti.one(uy[k], ux[k]) else {
                ev.violation(
                    "C04:transposed-query-failed",
                    &format!("transposed query ({:?},{:?}) not answered", uy[k], ux[k]),
                    case,
                    spec2_json(&spec),
                );
                return;
            };
            for (l, tv) in tr.iter().enumerate() {
                let a = res[k * lanes + l].f();
                let b = tv.f();
                let zz = cell_z(ux[k].f(), uy[k].f(), l);
                let tol = 128.0 * ulp * zz + 256.0 * uf * (1.0 + cell_span(ux[k].f(), uy[k].f()));
                ev.add("transpose_compared", 1);
                if !((a - b).abs() <= tol) {
                    ev.violation(
                        "C04:transpose",
                        &format!(
                            "f(x={:?},y={:?}) lane {l} = {a:e} but transposed problem gives {b:e} (tol {tol:e})",
                            ux[k], uy[k]
                        ),
                        case,
                        spec2_json(&spec),
                    );
                    return;
                }
                ev.max("transpose_diff_over_tol", if tol > 0.0 { (a - b).abs() / tol } else { 0.0 });
            }
        }
    });

    // (2) along a grid line x = x_i the result is the 1-D linear interpolation of that line
    let xpos: std::collections::HashMap<u64, usize> =
        x.iter().enumerate().map(|(i, v)| (v.bits(), i)).collect();
    let mut done_lines = 0;
    for k in 0..ux.len() {
        let Some(&i) = xpos.get(&ux[k].bits()) else { continue };
        if done_lines >= 10 {
            break;
        }
        done_lines += 1;
        let line = spec.data.index_axis(Axis(0), i).to_owned();
        let lspec = Spec1::new(
            line,
            Some(Array1::from(y.clone())),
            Strat1::Linear { extrapolate: false },
        )
        .dynamic(true);
        build1(&lspec, |r| {
            let Ok(li) = r else { return };
            let Outcome::Ok(lv) = li.one(uy[k]) else {
                ev.violation(
                    "C04:grid-line-query-failed",
                    "1-D interpolation of a grid line failed",
                    case,
                    spec2_json(&spec),
                );
                return;
            };
            for (l, v) in lv.iter().enumerate() {
                let a = res[k * lanes + l].f();
                let b = v.f();
                let zz = cell_z(ux[k].f(), uy[k].f(), l);
                let tol = 80.0 * ulp * zz + 256.0 * uf * (1.0 + cell_span(ux[k].f(), uy[k].f()));
                ev.add("grid_line_compared", 1);
                if !((a - b).abs() <= tol) {
                    ev.violation(
                        "C04:grid-line",
                        &format!(
                            "on grid line x[{i}] at y={:?} lane {l}: bilinear {a:e} vs 1-D linear {b:e} (tol {tol:e})",
                            uy[k]
                        ),
                        case,
                        spec2_json(&spec),
                    );
                    return;
                }
            }
        });
    }
    let _ = kind;
}

/// Grids whose axes carry sentinel knots at +-MAX (every single cell is representable, the
/// total span is not): every node is a query "inside the grid", must be answered, and every node
/// that is the lower corner of its cell in both directions must be reproduced exactly.
fn sentinel_axes(ev: &mut Ev) {
    use vh::ndarray::Array2;
    use vh::ndarray_interp::interp2d::Interp2D;
    let m = f64::MAX;
    let mut rng = Rng::derive(4, "C04-sentinel-axes", &[0]);
    let axes: Vec<Vec<f64>> = vec![vec![-m, -1.0, 0.5, 3.0, m], vec![-m, 0.0, m], vec![-2.0, 0.0, 1.0, m], vec![-m, -4.0, -1.0], vec![0.0, 1.0, 2.5]];
    let mut id = 9_700_000u64;
    for ax in &axes {
        for ay in &axes {
            let (nx, ny) = (ax.len(), ay.len());
            let z = Array2::from_shape_fn((nx, ny), |_| (rng.below(2001) as f64 - 1000.0) / 8.0);
            let b = Interp2D::builder(z.clone()).x(Array1::from(ax.clone())).y(Array1::from(ay.clone())).build().unwrap();
            for i in 0..nx {
                for j in 0..ny {
                    id += 1;
                    ev.add("sentinel_axis_node_queries", 1);
                    let r = vh::outcome::guard(|| b.interp_scalar(ax[i], ay[j]).map_err(|e| e.to_string()));
                    let exact_corner = i + 1 < nx && j + 1 < ny;
                    let ok = match &r {
                        Ok(Ok(v)) => !exact_corner || *v == z[[i, j]],
                        _ => false,
                    };
                    if !ok {
                        ev.violation(
                            if matches!(r, Ok(Ok(_))) { "C04:node-not-reproduced" } else { "C04:query-not-answered" },
                            &format!("x axis {ax:?}, y axis {ay:?}: node ({i},{j}) = ({:?},{:?}) with value {:?} -> {:?}", ax[i], ay[j], z[[i, j]], r),
                            id,
                            J::obj().set("x", format!("{ax:?}")).set("y", format!("{ay:?}")),
                        );
                    }
                }
            }
        }
    }
}

fn main() {
    let args = Args::parse("C04");
    let n = args.budget(800, 100000);
    let ev = run_sharded(&args, n, |case, ev, log| {
        if case % 4 == 3 {
            run_case::<f32>(case, &args, ev, log)
        } else {
            run_case::<f64>(case, &args, ev, log)
        }
    });
    let mut ev = ev;
    if args.blocks() {
        sentinel_axes(&mut ev);
    }
    ev.finish(
        &args,
        "random grids 2x2..12x9 (independent axis classes per axis incl. ulp-clusters and default \
         index axes, data of 2..5 / dynamic dimensions, f64/f32); queries at nodes, on grid lines, \
         interior, next to nodes. Non-trivial = non-square grid or more than one cell per axis; \
         distinct by hash of axes and data.",
        J::obj(),
    );
}
