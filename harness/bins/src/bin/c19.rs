//! C19 - the unchecked type cast of the rank-1 fast path only relabels identical types.
//! The finite instantiation set is enumerated by macro (vh-core::c19): for every
//! (interpolator, element type, data dimension type, storage kind) one interpolator is
//! queried with every query dimension type; with the hook (cfg ndarray_interp_verif) every
//! cast event is checked (identical type names / sizes / alignments, expected count); fast
//! path, general path and per-element interp must agree in every bit. Under Miri the same
//! program is the UB oracle.

use vh::report::*;
use vh::*;

fn main() {
    let args = Args::parse("C19");
    let stratum: u32 = args.extra_u64("stratum").unwrap_or(0) as u32;
    let elems: Vec<String> = args
        .extra
        .get("elems")
        .map(|s| s.split(',').map(|x| x.to_string()).collect())
        .unwrap_or_else(|| vec!["f64".into(), "f32".into(), "i32".into(), "i64".into()]);
    let mut ev = Ev::new();
    ev.max_samples = 12;
    for e in &elems {
        match e.as_str() {
            "f64" => x19a::run(&mut ev, stratum, args.shard, args.shards),
            "f32" => x19b::run(&mut ev, stratum, args.shard, args.shards),
            "i32" => x19c::run(&mut ev, stratum, args.shard, args.shards),
            "i64" => x19d::run(&mut ev, stratum, args.shard, args.shards),
            "none" => {}
            other => panic!("unknown element type {other}"),
        }
    }
    let insts: Vec<String> = ev.hist.get("instantiation").map(|h| h.keys().cloned().collect()).unwrap_or_default();
    for name in insts.iter().step_by(insts.len() / 10 + 1) {
        ev.samples.push(J::obj().set("instantiation", name.as_str()).set("query_types", "Ix0, Ix1 (fast path), Ix2, Ix3, IxDyn(rank 1), per-element interp"));
    }
    let full = stratum == 0 && elems.len() == 4 && args.shards == 1;
    ev.add("instantiations", insts.len() as u64);
    let crossed = insts.iter().filter(|n| n.contains(" query ") || n.contains(" ys ")).count() as u64;
    ev.add("crossed_storage_instantiations", crossed);
    ev.add("query_type_instantiations", (insts.len() as u64 - crossed) * 5 + crossed * 2);
    ev.finish(
        &args,
        "every instantiation: {Interp1D/Linear, Interp2D/Bilinear} x {f64, f32, i32, i64} x data \
         dimension type {Ix1..Ix6, IxDyn} (2-D: Ix2..Ix6, IxDyn) x storage {owned, view, shared} (data, \
         axes and query together), plus CubicSpline for f64/f32; each queried with query dimension \
         types Ix0, Ix1, Ix2, Ix3 and IxDyn(rank 1) and per element; plus crossed storage kinds: all \
         six ordered pairs of different kinds for (data, query) in 1-D and (xs, ys) in 2-D, every data \
         dimension type and element type (Ix1 fast path vs Ix2 general path vs per element). Every instantiation is non-trivial \
         (it exercises the TypeId test with its own type parameters); distinct = distinct instantiations.",
        J::obj()
            .set("exhaustive_done", full)
            .set("hook_enabled", vh::c19::hook_enabled())
            .set("instantiation_list", J::arr(insts)),
    );
}
