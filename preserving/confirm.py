#!/usr/bin/env python3
"""False-alarm test: file a behaviour-preserving change written by an independent sub-agent and
run ALL quick checks against it. Every check must stay silent.

  preserving/confirm.py import <agent-dir> <id>     (<agent-dir>/seeded/{patch.diff,meta.json})
  preserving/confirm.py recheck <id> [--props C01,C02]
  preserving/confirm.py matrix

Nothing is applied to /repo; the scratch worktree lives under /tmp/vpres and is removed.
"""
import json
import os
import shutil
import sys

HERE = os.path.dirname(os.path.abspath(__file__))
VERIF = os.path.dirname(HERE)
os.environ.setdefault("VMUT_ROOT", "/tmp/vpres")
sys.path.insert(0, os.path.join(VERIF, "seeded"))
import confirm as C  # noqa: E402

M = C.M


def main():
    a = sys.argv[1:]
    if not a:
        print(__doc__)
        return 0
    props = a[a.index("--props") + 1].split(",") if "--props" in a else C.all_props()
    try:
        if a[0] == "import":
            src, sid = a[1], a[2]
            patch = os.path.join(src, "seeded", "patch.diff")
            meta = json.load(open(os.path.join(src, "seeded", "meta.json")))
            M.fresh_worktree()
            r = M.sh(["git", "-C", C.WT, "apply", patch])
            if r.returncode != 0:
                print("patch does not apply:", r.stdout)
                return 1
            ok, out = C.cargo_test("--workspace --no-fail-fast")
            print("suite passes with the patch:", ok)
            if not ok:
                print(out)
                return 1
            dst = os.path.join(HERE, sid)
            os.makedirs(dst, exist_ok=True)
            shutil.copy(patch, os.path.join(dst, "patch.diff"))
            checks = C.run_checks(os.path.join(dst, "patch.diff"), props)
            meta_out = {"id": sid, "origin": "independent sub-agent asked for a behaviour-preserving change (given the area, the "
                        "definition of 'preserving' and a scratch worktree; nothing from /verif)",
                        "area": meta.get("area"), "summary": meta.get("summary"), "why_preserving": meta.get("why_preserving"),
                        "rounding_changes": meta.get("rounding_changes"), "suite_passes_with_patch": True, "checks": checks}
            json.dump(meta_out, open(os.path.join(dst, "meta.json"), "w"), indent=1)
            print("filed under", dst)
        elif a[0] == "recheck":
            dst = os.path.join(HERE, a[1])
            meta = json.load(open(os.path.join(dst, "meta.json")))
            checks = C.run_checks(os.path.join(dst, "patch.diff"), props)
            meta["checks"].update(checks)
            json.dump(meta, open(os.path.join(dst, "meta.json"), "w"), indent=1)
        elif a[0] == "matrix":
            for sid in sorted(os.listdir(HERE)):
                mp = os.path.join(HERE, sid, "meta.json")
                if os.path.exists(mp):
                    m = json.load(open(mp))
                    loud = [p for p, c in m["checks"].items() if c["verdict"] != "silent"]
                    print(f"{sid:6s} alarms: {','.join(loud) or 'none':20s} {(m.get('summary') or '')[:110]}")
    finally:
        if a[0] in ("import", "recheck"):
            C.cleanup()
    return 0


if __name__ == "__main__":
    sys.exit(main())
