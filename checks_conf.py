"""Per-property configuration of ./check: driver binary, legs per tier, observation gates."""

N = ("native", 1.0)

PROPS = {
    "C01": dict(bin="c01", oracle=True,
                legs={"quick": [N], "thorough": [N]},
                gates=[("hist_keys_min", "axis_class", 7), ("hist_keys_min", "entry", 3),
                       ("nontrivial_min", 100)],
                assumptions=["tolerance 16*2^-52*Y (2^-23 for f32) with Y the larger bracketing magnitude; "
                             "derived bound of the crate's formula is 11u*Y",
                             "python3 fractions is exact"]),
}
