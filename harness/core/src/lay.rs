//! Layout zoo: materialise a logical array in memory with a chosen layout
//! (axis permutation of the memory order, per-axis step, reversed axes, padding on
//! both sides inside a larger allocation filled with sentinels).
//!
//! The same sequence of view operations works for owned arrays, views, mutable views
//! and shared arrays, so every storage kind can carry every layout.

use crate::rng::Rng;
use ndarray::{ArrayBase, ArrayD, ArrayViewD, ArrayViewMutD, Axis, IxDyn, RawData, Slice};

#[derive(Clone, Debug, PartialEq, Eq, Hash)]
pub struct Layout {
    /// memory axis m holds logical axis perm[m] (identity = C order, reversed = F order)
    pub perm: Vec<usize>,
    pub step: Vec<usize>,
    pub rev: Vec<bool>,
    pub pad_lo: Vec<usize>,
    pub pad_hi: Vec<usize>,
}

impl Layout {
    pub fn c(ndim: usize) -> Self {
        Layout {
            perm: (0..ndim).collect(),
            step: vec![1; ndim],
            rev: vec![false; ndim],
            pad_lo: vec![0; ndim],
            pad_hi: vec![0; ndim],
        }
    }
    pub fn f(ndim: usize) -> Self {
        let mut l = Self::c(ndim);
        l.perm.reverse();
        l
    }
    pub fn strided(ndim: usize, k: usize) -> Self {
        let mut l = Self::c(ndim);
        l.step = vec![k; ndim];
        l
    }
    pub fn reversed(ndim: usize) -> Self {
        let mut l = Self::c(ndim);
        l.rev = vec![true; ndim];
        l
    }
    pub fn window(ndim: usize, lo: usize, hi: usize) -> Self {
        let mut l = Self::c(ndim);
        l.pad_lo = vec![lo; ndim];
        l.pad_hi = vec![hi; ndim];
        l
    }
    pub fn is_plain_c(&self) -> bool {
        *self == Self::c(self.perm.len())
    }
    /// short class label used in histograms
    pub fn class(&self) -> String {
        let n = self.perm.len();
        let mut parts = Vec::new();
        if n > 1 && self.perm.iter().rev().copied().eq(0..n) {
            parts.push("F".to_string());
        } else if !self.perm.iter().copied().eq(0..n) {
            parts.push("perm".to_string());
        } else {
            parts.push("C".to_string());
        }
        if self.step.iter().any(|&s| s > 1) {
            parts.push("step".into());
        }
        if self.rev.iter().any(|&r| r) {
            parts.push("rev".into());
        }
        if self.pad_lo.iter().chain(self.pad_hi.iter()).any(|&p| p > 0) {
            parts.push("win".into());
        }
        parts.join("+")
    }

    /// random layout for an array of `ndim` axes
    pub fn random(rng: &mut Rng, ndim: usize) -> Self {
        let mut l = Self::c(ndim);
        match rng.below(8) {
            0 => {}
            1 => l = Self::f(ndim),
            2 => l = Self::strided(ndim, 2 + rng.below(2)),
            3 => l = Self::reversed(ndim),
            4 => l = Self::window(ndim, 1 + rng.below(2), 1 + rng.below(2)),
            _ => {
                rng.shuffle(&mut l.perm);
                for a in 0..ndim {
                    l.step[a] = 1 + rng.below(3);
                    l.rev[a] = rng.chance(0.3);
                    l.pad_lo[a] = rng.below(3);
                    l.pad_hi[a] = rng.below(3);
                }
            }
        }
        l
    }

    /// the same layout with steps / padding reduced until the enclosing allocation has at
    /// most `max_elems` elements (high-rank arrays would otherwise explode)
    pub fn fitted(&self, shape: &[usize], max_elems: usize) -> Layout {
        let mut l = self.clone();
        let total = |l: &Layout| l.ext(shape).iter().fold(1usize, |a, &b| a.saturating_mul(b.max(1)));
        let mut ax = 0;
        let mut guard = 0;
        while total(&l) > max_elems && guard < 10 * shape.len().max(1) {
            let a = ax % shape.len().max(1);
            if l.pad_lo[a] + l.pad_hi[a] > 0 {
                l.pad_lo[a] = 0;
                l.pad_hi[a] = 0;
            } else if l.step[a] > 1 {
                l.step[a] = 1;
            }
            ax += 1;
            guard += 1;
        }
        l
    }

    fn ext(&self, shape: &[usize]) -> Vec<usize> {
        shape
            .iter()
            .enumerate()
            .map(|(a, &len)| {
                let core = if len == 0 { 0 } else { (len - 1) * self.step[a] + 1 };
                self.pad_lo[a] + core + self.pad_hi[a]
            })
            .collect()
    }

    /// apply the view operations that carve the logical array out of the base array
    pub fn carve<S: RawData>(
        &self,
        base: ArrayBase<S, IxDyn>,
        shape: &[usize],
    ) -> ArrayBase<S, IxDyn> {
        let n = self.perm.len();
        assert_eq!(shape.len(), n);
        let mut inv = vec![0usize; n];
        for (m, &l) in self.perm.iter().enumerate() {
            inv[l] = m;
        }
        let mut a = base.permuted_axes(IxDyn(&inv));
        for ax in 0..n {
            let len = shape[ax];
            let start = self.pad_lo[ax] as isize;
            let end = if len == 0 {
                start
            } else {
                start + ((len - 1) * self.step[ax] + 1) as isize
            };
            a.slice_axis_inplace(
                Axis(ax),
                Slice::new(start, Some(end), self.step[ax] as isize),
            );
            if self.rev[ax] {
                a.invert_axis(Axis(ax));
            }
        }
        debug_assert_eq!(a.shape(), shape);
        a
    }
}

/// A logical array stored inside a larger base allocation with a given layout.
#[derive(Clone, Debug)]
pub struct Mat<T> {
    pub base: ArrayD<T>,
    pub shape: Vec<usize>,
    pub lay: Layout,
    /// Some(stored shape): the logical array is constant along the axes where the stored length
    /// is 1 and the logical length is larger; `view()` is then a broadcast view (zero strides)
    pub stored: Option<Vec<usize>>,
}

impl<T: Clone> Mat<T> {
    /// `fill(k)` gives the value of base element number k (memory order)
    pub fn new(logical: &ArrayD<T>, lay: &Layout, fill: impl Fn(u64) -> T) -> Self {
        let shape = logical.shape().to_vec();
        let mut m = Self::blank(&shape, lay, fill);
        m.view_mut().assign(logical);
        m
    }

    /// base filled with `fill`, logical window not assigned
    pub fn blank(shape: &[usize], lay: &Layout, fill: impl Fn(u64) -> T) -> Self {
        let cap = if cfg!(miri) { 1 << 12 } else { 1 << 20 };
        let lay = &lay.fitted(shape, cap);
        let ext = lay.ext(shape);
        let base_shape: Vec<usize> = lay.perm.iter().map(|&l| ext[l]).collect();
        let n: usize = base_shape.iter().product();
        let v: Vec<T> = (0..n as u64).map(fill).collect();
        let base = ArrayD::from_shape_vec(IxDyn(&base_shape), v).unwrap();
        Mat {
            base,
            shape: shape.to_vec(),
            lay: lay.clone(),
            stored: None,
        }
    }

    /// a logical array of shape `full` that repeats `reduced` (length 1 along the broadcast
    /// axes) - stored once, viewed with zero strides
    pub fn broadcast(reduced: &ArrayD<T>, full: &[usize], lay: &Layout, fill: impl Fn(u64) -> T) -> Self {
        assert!(reduced.ndim() == full.len());
        assert!(reduced.shape().iter().zip(full).all(|(r, f)| r == f || *r == 1));
        let mut m = Self::new(reduced, lay, fill);
        m.stored = Some(reduced.shape().to_vec());
        m.shape = full.to_vec();
        m
    }

    pub fn plain(logical: &ArrayD<T>) -> Self {
        Mat {
            base: logical.as_standard_layout().into_owned(),
            shape: logical.shape().to_vec(),
            lay: Layout::c(logical.ndim()),
            stored: None,
        }
    }

    pub fn view(&self) -> ArrayViewD<'_, T> {
        match &self.stored {
            None => self.lay.carve(self.base.view(), &self.shape),
            Some(stored) => {
                use ndarray::ShapeBuilder;
                let v = self.lay.carve(self.base.view(), stored);
                let strides: Vec<usize> = (0..stored.len())
                    .map(|ax| if stored[ax] == 1 && self.shape[ax] != 1 { 0 } else { v.strides()[ax] as usize })
                    .collect();
                // SAFETY: the same elements as `v` (which borrows self.base), each repeated
                // along the zero-stride axes; read-only
                unsafe { ArrayViewD::from_shape_ptr(IxDyn(&self.shape).strides(IxDyn(&strides)), v.as_ptr()) }
            }
        }
    }
    pub fn view_mut(&mut self) -> ArrayViewMutD<'_, T> {
        assert!(self.stored.is_none(), "broadcast arrays are read-only");
        let shape = self.shape.clone();
        self.lay.clone().carve(self.base.view_mut(), &shape)
    }
    /// owned array with the same strides / offset as the view (keeps the whole allocation)
    pub fn owned(&self) -> ArrayD<T> {
        match &self.stored {
            None => self.lay.carve(self.base.clone(), &self.shape),
            Some(_) => self.view().to_owned(),
        }
    }
}

impl<T: Clone> Mat<T> {
    /// boolean mask over the base (memory order): true where the logical window lives
    pub fn window_mask(&self) -> ArrayD<bool> {
        let mut m = ArrayD::from_elem(self.base.raw_dim(), false);
        self.lay.carve(m.view_mut(), &self.shape).fill(true);
        m
    }
}
