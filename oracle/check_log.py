#!/usr/bin/env python3
"""Offline exact checker over the event log written by the Rust drivers.

usage: check_log.py <out_dir> [--jobs N]
Reads <out_dir>/log-*.jsonl, writes <out_dir>/oracle.json:
  {"events":..,"values_checked":..,"violations":[{sig,what,case,replay}],
   "max_ratio":{check: worst observed |error|/tolerance}, "inconclusive": n, ...}
A violation is only ever reported for a comparison that exceeds its stated bound;
a singular reference system or a non-evaluable case is counted as inconclusive.
"""
import glob
import json
import os
import sys
from fractions import Fraction as F
from multiprocessing import Pool

sys.path.insert(0, os.path.dirname(os.path.abspath(__file__)))
import exact as X  # noqa: E402

MAX_VIOL_PER_EVENT = 3


class Acc:
    def __init__(self):
        self.values = 0
        self.viol = []
        self.ratio = {}
        self.inconclusive = 0
        self.counts = {}

    def ratio_upd(self, name, err, tol):
        if tol == 0:
            r = 0.0 if err == 0 else float("inf")
        else:
            r = fl(err / tol)
            if r != r:
                r = float("inf")
        if name not in self.ratio or r > self.ratio[name]:
            self.ratio[name] = r

    def count(self, k, n=1):
        self.counts[k] = self.counts.get(k, 0) + n


def fl(v):
    """float(v) for Fractions / Decimals of any size: +-inf instead of OverflowError"""
    try:
        return float(v)
    except OverflowError:
        return float("inf") if v > 0 else float("-inf")


MAXF = {"f64": F(2) ** 1020, "f32": F(2) ** 124}


def overflowish(exact, tol, ty):
    """the exact value (or an intermediate of comparable size) is near the overflow
    threshold of the element type: a non-finite result is then not a property violation"""
    return abs(exact) + tol > MAXF[ty]


def lanes_of(ev):
    shape = ev["shape"]
    n = shape[0]
    lanes = 1
    for s in shape[1:]:
        lanes *= s
    return n, lanes


LONG_AXIS = 200  # above this many knots the reference is computed in 120-digit decimals


def parse_bc(ev, lane, ty, N=F):
    b = ev["strategy"]["boundary"]
    if b == "Periodic":
        return "Periodic"
    l, r = b[lane]

    def one(s):
        if len(s) == 1:
            return (s[0], None)
        return (s[0], N(X.dec(s[1], ty)))
    return (one(l), one(r))


def viol(acc, ev, sig, what, extra=None):
    if len(acc.viol) >= 50:
        return
    rec = {"sig": sig, "what": what, "case": ev["case"],
           "replay": {"event": {k: ev[k] for k in ev if k not in ("res",)},
                      "detail": extra or {}}}
    acc.viol.append(rec)


# ---------------------------------------------------------------------------- interp1

def check_interp1(ev, acc):
    ty = ev["ty"]
    x = X.decs(ev["x"], ty)
    n, lanes = lanes_of(ev)
    data = X.decs(ev["data"], ty)
    q = X.decs(ev["q"], ty)
    res = X.decs(ev["res"], ty)
    checks = ev["checks"]
    kind = ev["strategy"]["kind"]
    prop = ev["prop"]
    if lanes == 0 or len(q) == 0:
        return
    if len(res) != len(q) * lanes:
        viol(acc, ev, f"{prop}:result-size", f"result has {len(res)} values, expected {len(q) * lanes}")
        return
    ycols = [[data[i * lanes + l] for i in range(n)] for l in range(lanes)]
    nviol = 0
    if kind == "linear" and "line" in checks:
        for l in range(lanes):
            y = ycols[l]
            for k, qq in enumerate(q):
                r = res[k * lanes + l]
                acc.values += 1
                exact, Y, t, dq = X.line_exact(x, y, qq)
                tol = X.line_tol(ty, Y, t, dq)
                if not X.is_finite(r):
                    if overflowish(exact, tol, ty):
                        acc.count("overflow-skipped")
                    elif nviol < MAX_VIOL_PER_EVENT:
                        viol(acc, ev, f"{prop}:line", f"non-finite result {r} for q={qq!r} lane {l}")
                        nviol += 1
                    continue
                err = abs(F(r) - exact)
                acc.ratio_upd("line", err, tol)
                if err > tol:
                    if nviol < MAX_VIOL_PER_EVENT:
                        viol(acc, ev, f"{prop}:line",
                             f"q={qq!r} lane {l}: got {r!r}, exact line gives {fl(exact)!r}, "
                             f"|err|={fl(err):.3e} > tol={fl(tol):.3e}",
                             {"q": qq, "lane": l, "got": r, "exact": fl(exact)})
                        nviol += 1
        return
    if kind == "spline":
        N = F if n <= LONG_AXIS else X.D
        if N is not F:
            acc.count("long-axis-events-decimal-reference")
        xf = [N(v) for v in x]
        qf = [N(v) for v in q]
        extrap = ev["strategy"]["extrapolate"]
        for l in range(lanes):
            yf = [N(v) for v in ycols[l]]
            bc = parse_bc(ev, l, ty, N)
            try:
                M = X.spline_moments(xf, yf, bc)
            except X.Singular:
                acc.inconclusive += 1
                continue
            unit = X.spline_scale(ty, xf, yf, M, bc)
            tol0 = X.C_SPLINE * unit
            lane_res = [res[k * lanes + l] for k in range(len(q))]
            if "value" in checks:
                nviol += check_spline_values(ev, acc, prop, x, xf, yf, M, bc, q, qf, lane_res,
                                             tol0, extrap, l, ty, nviol)
            if "knots" in checks:
                nviol += check_knots(ev, acc, prop, x, yf, q, lane_res, tol0, l, nviol)
            if "c2" in checks:
                nviol += check_c2(ev, acc, prop, x, xf, q, qf, lane_res, tol0, l, nviol)
            if "bc" in checks:
                nviol += check_bc(ev, acc, prop, x, xf, q, qf, lane_res, tol0, bc, l, nviol)
            if "poly" in checks:
                nviol += check_poly(ev, acc, prop, x, xf, q, qf, lane_res, tol0, l, nviol)
        return
    if kind == "linear" and "poly" in checks:
        for l in range(lanes):
            coef = [F(X.dec(c, "f64")) for c in ev["poly"][l]]
            for k, qq in enumerate(q):
                r = res[k * lanes + l]
                acc.values += 1
                exact = sum(c * F(qq) ** p for p, c in enumerate(coef))
                _, Y, t, dq = X.line_exact(x, ycols[l], qq)
                tol = X.line_tol(ty, Y, t, dq)
                if not X.is_finite(r):
                    viol(acc, ev, f"{prop}:poly", f"non-finite result for q={qq!r}")
                    continue
                err = abs(F(r) - exact)
                acc.ratio_upd("poly-linear", err, tol)
                if err > tol and nviol < MAX_VIOL_PER_EVENT:
                    viol(acc, ev, f"{prop}:poly",
                         f"q={qq!r} lane {l}: got {r!r}, polynomial gives {fl(exact)!r}, "
                         f"|err|={fl(err):.3e} > tol={fl(tol):.3e}")
                    nviol += 1
        return


def N_of(N, frac):
    """a Fraction as a number of type N (Fraction or Decimal)"""
    if N is F:
        return frac
    return N(frac.numerator) / N(frac.denominator)


def wrap_periodic(xf, qf):
    """exact wrap of q into [x0, xn)"""
    x0, xn = xf[0], xf[-1]
    P = xn - x0
    k = X.floor_div(qf - x0, P)
    return qf - k * P


def check_spline_values(ev, acc, prop, x, xf, yf, M, bc, q, qf, lane_res, tol0, extrap, l, ty, nv):
    nviol = 0
    periodic = (bc == "Periodic")
    L = None
    for k, qq in enumerate(q):
        r = lane_res[k]
        acc.values += 1
        qx = qf[k]
        inside = xf[0] <= qx <= xf[-1]
        extra_tol = qx * 0
        if not inside and periodic and extrap:
            # the wrap itself always in exact rationals (a far query has hundreds of digits)
            N = type(qx)
            x0F, xnF, qF = F(xf[0]), F(xf[-1]), F(qx)
            PF = xnF - x0F
            w = N_of(N, wrap_periodic([x0F, xnF], qF))
            if L is None:
                L = X.spline_slope_bound(xf, yf, M)
            P = xf[-1] - xf[0]
            # error of the wrapped argument of any implementation that forms q - x0 and reduces
            # it modulo the float period: rounding of q - x0, k times the rounding of the
            # period, and the final additions. (Exact - and therefore demanding - when x0 = 0
            # and the period is representable, however far out the query lies.)
            dF = qF - x0F
            try:
                d_fl = X.round_to(ty, dF)
                P_fl = X.round_to(ty, PF)
            except OverflowError:
                acc.count("wrap-resolution-skipped")
                continue
            deltaF = 2 * abs(d_fl - dF) + 2 * (abs(dF) / PF) * abs(P_fl - PF) \
                + 4 * X.unit(ty, F) * (abs(x0F) + PF)
            # any ordinary argument reduction - e.g. d - floor(d/P)*P instead of an exact
            # remainder - is accurate to a few ulps of d: that, too, is "rounding of the wrapped
            # argument". (Consequence: queries more than about 2^49 periods away are not judged,
            # see below - the statement's own tolerance exceeds a period there.)
            deltaF += 4 * X.unit(ty, F) * abs(dF)
            delta = N_of(N, deltaF)
            if deltaF * 4 > PF:
                # neighbouring floats of the query are about a period apart: the wrapped
                # argument is not determined by the query any more
                acc.count("wrap-resolution-skipped")
                continue
            if abs(dF) > PF * 10 ** 7:
                acc.count("far-wrap-judged")
            # Lipschitz term. The crate's wrapped argument can differ from the exact wrap by
            # delta on the circle and may even land up to delta outside the range, where the
            # end cubic is continued: |S1| is bounded there by L + max|S2| delta + max|S3| delta^2
            # (S1, S2, S3 = first, second, third derivative).
            m_max = max(abs(m) for m in M)
            s3_max = max(abs(M[j + 1] - M[j]) / (xf[j + 1] - xf[j]) for j in range(len(xf) - 1))
            extra_tol = (2 * L + m_max * delta + s3_max * delta * delta) * delta
            i = X.bracket(x, fl(w)) if w != xf[-1] else len(x) - 2
            # fl(w) may round across a knot: fix the bracket exactly
            while i > 0 and w < xf[i]:
                i -= 1
            while i < len(xf) - 2 and w >= xf[i + 1]:
                i += 1
            exact = X.spline_eval(xf, yf, M, i, w)
            amp = 1
            name = "value-periodic-wrap"
        else:
            i = X.bracket(x, qq)
            exact = X.spline_eval(xf, yf, M, i, qx)
            amp = X.t_amp(xf, i, qx)
            name = "value" if inside else "value-extrapolated"
        tol = tol0 * amp + extra_tol
        if not X.is_finite(r):
            lim = 1e300 if ty == "f64" else 1e37
            if abs(exact) + tol > lim:
                acc.count("overflow-skipped")
            elif nv + nviol < MAX_VIOL_PER_EVENT:
                viol(acc, ev, f"{prop}:value", f"non-finite result {r} for q={qq!r} lane {l}")
                nviol += 1
            continue
        err = abs(type(exact)(r) - exact)
        acc.ratio_upd(name, err, tol)
        if err > tol:
            if nv + nviol < MAX_VIOL_PER_EVENT:
                viol(acc, ev, f"{prop}:{name}",
                     f"q={qq!r} lane {l} bc={bc_name(bc)}: got {r!r}, exact spline gives "
                     f"{fl(exact)!r}, |err|={fl(err):.3e} > tol={fl(tol):.3e}",
                     {"q": qq, "lane": l, "got": r, "exact": fl(exact)})
                nviol += 1
    return nviol


def bc_name(bc):
    if bc == "Periodic":
        return "Periodic"
    return f"{bc[0][0]}/{bc[1][0]}"


def check_knots(ev, acc, prop, x, yf, q, lane_res, tol0, l, nv):
    nviol = 0
    pos = {v: i for i, v in enumerate(x)}
    for k, qq in enumerate(q):
        i = pos.get(qq)
        if i is None:
            continue
        r = lane_res[k]
        acc.values += 1
        if not X.is_finite(r):
            err, bad = None, True
        else:
            err = abs(type(yf[i])(r) - yf[i])
            acc.ratio_upd("knot-reproduced", err, tol0)
            bad = err > tol0
        if bad and nv + nviol < MAX_VIOL_PER_EVENT:
            viol(acc, ev, f"{prop}:knot-not-reproduced",
                 f"lane {l}: S(x[{i}]={qq!r}) = {r!r}, data value is {fl(yf[i])!r}")
            nviol += 1
    return nviol


def interval_samples(x, xf, q, qf, lane_res):
    """per interval: sorted distinct (abscissa Fraction, value Fraction) incl. both knots"""
    n = len(x)
    per = [dict() for _ in range(n - 1)]
    for k, qq in enumerate(q):
        if not (x[0] <= qq <= x[-1]):
            continue
        r = lane_res[k]
        if not X.is_finite(r):
            continue
        i = X.bracket(x, qq)
        per[i][qf[k]] = type(qf[k])(r)
        if qq == x[i] and i > 0:
            per[i - 1][qf[k]] = type(qf[k])(r)
    return [sorted(d.items()) for d in per]


def pick4(samples):
    """choose 4 spread abscissae (ends + 2 interior) and return (fit points, rest)"""
    m = len(samples)
    idx = [0, m // 3, (2 * m) // 3, m - 1]
    if len(set(idx)) < 4:
        idx = [0, 1, m - 2, m - 1]
    fit = [samples[i] for i in idx]
    rest = [samples[i] for i in range(m) if i not in idx]
    return fit, rest


def check_c2(ev, acc, prop, x, xf, q, qf, lane_res, tol0, l, nv):
    nviol = 0
    per = interval_samples(x, xf, q, qf, lane_res)
    fits = []
    for i, s in enumerate(per):
        if len(s) < 5:
            fits.append(None)
            acc.count("c2-intervals-skipped")
            continue
        fit, rest = pick4(s)
        a = [p[0] for p in fit]
        v = [p[1] for p in fit]
        fits.append((a, v))
        acc.count("c2-intervals")
        for (z, val) in rest:
            w = X.lagrange_weights(a, z, 0)
            pred = sum(wj * vj for wj, vj in zip(w, v))
            amp = 1 + sum(abs(wj) for wj in w)
            tol = tol0 * amp
            err = abs(val - pred)
            acc.values += 1
            acc.ratio_upd("one-cubic-per-interval", err, tol)
            if err > tol and nv + nviol < MAX_VIOL_PER_EVENT:
                viol(acc, ev, f"{prop}:not-one-cubic",
                     f"lane {l} interval {i}: sample at {fl(z)!r} is {fl(val)!r}, the cubic "
                     f"through 4 other samples of the interval gives {fl(pred)!r} "
                     f"(|err|={fl(err):.3e} > {fl(tol):.3e})")
                nviol += 1
    for i in range(1, len(xf) - 1):
        if fits[i - 1] is None or fits[i] is None:
            continue
        z = xf[i]
        for d, name in ((1, "first-derivative-jump"), (2, "second-derivative-jump")):
            (al, vl), (ar, vr) = fits[i - 1], fits[i]
            wl = X.lagrange_weights(al, z, d)
            wr = X.lagrange_weights(ar, z, d)
            dl = sum(a * b for a, b in zip(wl, vl))
            dr = sum(a * b for a, b in zip(wr, vr))
            tol = tol0 * (sum(abs(a) for a in wl) + sum(abs(a) for a in wr))
            err = abs(dl - dr)
            acc.values += 1
            acc.ratio_upd(name, err, tol)
            if err > tol and nv + nviol < MAX_VIOL_PER_EVENT:
                viol(acc, ev, f"{prop}:{name}",
                     f"lane {l} knot {i} (x={fl(z)!r}): one-sided derivatives of order {d} are "
                     f"{fl(dl)!r} and {fl(dr)!r} (|jump|={fl(err):.3e} > {fl(tol):.3e})")
                nviol += 1
    return nviol


def check_bc(ev, acc, prop, x, xf, q, qf, lane_res, tol0, bc, l, nv):
    """end-condition residuals from exact cubic fits of the returned end-interval samples"""
    nviol = 0
    per = interval_samples(x, xf, q, qf, lane_res)
    n = len(xf)

    def fit_of(i):
        s = per[i]
        if len(s) < 4:
            return None
        fit, _ = pick4(s) if len(s) >= 5 else (s, [])
        return [p[0] for p in fit], [p[1] for p in fit]

    def deriv(fit, z, d):
        a, v = fit
        w = X.lagrange_weights(a, z, d)
        return sum(wj * vj for wj, vj in zip(w, v)), sum(abs(wj) for wj in w)

    def report(name, err, tol, what):
        nonlocal nviol
        acc.values += 1
        acc.ratio_upd("bc-" + name, err, tol)
        if err > tol and nv + nviol < MAX_VIOL_PER_EVENT:
            viol(acc, ev, f"{prop}:bc-{name}",
                 f"lane {l}: {what} (|residual|={fl(err):.3e} > {fl(tol):.3e})")
            nviol += 1

    first, last = fit_of(0), fit_of(n - 2)
    if bc == "Periodic":
        if first and last:
            for d in (1, 2):
                a, wa = deriv(first, xf[0], d)
                b, wb = deriv(last, xf[-1], d)
                report(f"periodic-d{d}", abs(a - b), tol0 * (wa + wb),
                       f"derivative {d} at the two ends: {fl(a)!r} vs {fl(b)!r}")
        return nviol
    sides = ((bc[0], 0, first, 1, "left"), (bc[1], n - 2, last, n - 2, "right"))
    both_nak_3 = (n == 3 and bc[0][0] == "NotAKnot" and bc[1][0] == "NotAKnot")
    for (kind, val), iv, fit, inner_knot, side in sides:
        if fit is None:
            acc.count("bc-skipped")
            continue
        z = xf[0] if side == "left" else xf[-1]
        if kind in ("Natural", "SecondDeriv"):
            target = z * 0 if kind == "Natural" else val
            d, w = deriv(fit, z, 2)
            report(f"{kind}-{side}", abs(d - target), tol0 * w,
                   f"S''({side} end)={fl(d)!r}, required {fl(target)!r}")
        elif kind in ("Clamped", "FirstDeriv"):
            target = z * 0 if kind == "Clamped" else val
            d, w = deriv(fit, z, 1)
            report(f"{kind}-{side}", abs(d - target), tol0 * w,
                   f"S'({side} end)={fl(d)!r}, required {fl(target)!r}")
        elif kind == "NotAKnot":
            if both_nak_3:
                d, w = deriv(fit, z, 3)
                report(f"NotAKnot3-{side}", abs(d), tol0 * w,
                       f"S''' on the {side} interval is {fl(d)!r}, parabola requires 0")
                continue
            other_iv = 1 if side == "left" else n - 3
            if other_iv < 0 or other_iv > n - 2:
                continue
            other = fit_of(other_iv)
            if other is None:
                acc.count("bc-skipped")
                continue
            d1, w1 = deriv(fit, z, 3)
            d2, w2 = deriv(other, z, 3)
            report(f"NotAKnot-{side}", abs(d1 - d2), tol0 * (w1 + w2),
                   f"S''' jumps across the {side} interior knot: {fl(d1)!r} vs {fl(d2)!r}")
    return nviol


def check_poly(ev, acc, prop, x, xf, q, qf, lane_res, tol0, l, nv):
    nviol = 0
    N = type(qf[0])
    coef = [N(X.dec(c, "f64")) for c in ev["poly"][l]]
    for k, qq in enumerate(q):
        r = lane_res[k]
        acc.values += 1
        if not X.is_finite(r):
            if nv + nviol < MAX_VIOL_PER_EVENT:
                viol(acc, ev, f"{prop}:poly", f"non-finite result for q={qq!r} lane {l}")
                nviol += 1
            continue
        exact = qf[k] * 0
        for c in reversed(coef):
            exact = exact * qf[k] + c
        i = X.bracket(x, qq)
        tol = tol0 * X.t_amp(xf, i, qf[k])
        err = abs(N(r) - exact)
        acc.ratio_upd("poly-spline", err, tol)
        if err > tol and nv + nviol < MAX_VIOL_PER_EVENT:
            viol(acc, ev, f"{prop}:poly",
                 f"q={qq!r} lane {l}: got {r!r}, generating polynomial gives {fl(exact)!r}, "
                 f"|err|={fl(err):.3e} > tol={fl(tol):.3e}")
            nviol += 1
    return nviol


# ---------------------------------------------------------------------------- interp2

def check_interp2(ev, acc):
    ty = ev["ty"]
    x = X.decs(ev["x"], ty)
    y = X.decs(ev["y"], ty)
    shape = ev["shape"]
    nx, ny = shape[0], shape[1]
    lanes = 1
    for s in shape[2:]:
        lanes *= s
    data = X.decs(ev["data"], ty)
    qx = X.decs(ev["q"], ty)
    qy = X.decs(ev["qy"], ty)
    res = X.decs(ev["res"], ty)
    prop = ev["prop"]
    checks = ev["checks"]
    if lanes == 0 or len(qx) == 0:
        return
    if len(res) != len(qx) * lanes:
        viol(acc, ev, f"{prop}:result-size", f"result has {len(res)} values, expected {len(qx) * lanes}")
        return
    nviol = 0
    for l in range(lanes):
        z = [[data[(i * ny + j) * lanes + l] for j in range(ny)] for i in range(nx)]
        coef = None
        if "poly" in checks:
            coef = [F(X.dec(c, "f64")) for c in ev["poly"][l]]  # a + b x + c y + d x y
        for k in range(len(qx)):
            r = res[k * lanes + l]
            acc.values += 1
            exact, Z, tx, ty_, dqx, dqy = X.bilinear_exact(x, y, z, qx[k], qy[k])
            tol = X.bilinear_tol(ty, Z, tx, ty_, dqx, dqy)
            if not X.is_finite(r):
                if overflowish(exact, tol / X.U[ty], ty):
                    acc.count("overflow-skipped")
                elif nviol < MAX_VIOL_PER_EVENT:
                    viol(acc, ev, f"{prop}:blend", f"non-finite result {r} for q=({qx[k]!r},{qy[k]!r}) lane {l}")
                    nviol += 1
                continue
            name = "blend"
            if coef is not None:
                a, b, c, d = coef
                exact = a + b * F(qx[k]) + c * F(qy[k]) + d * F(qx[k]) * F(qy[k])
                name = "poly-bilinear"
            err = abs(F(r) - exact)
            acc.ratio_upd(name, err, tol)
            if err > tol:
                if nviol < MAX_VIOL_PER_EVENT:
                    viol(acc, ev, f"{prop}:{name}",
                         f"q=({qx[k]!r},{qy[k]!r}) lane {l}: got {r!r}, exact gives "
                         f"{fl(exact)!r}, |err|={fl(err):.3e} > tol={fl(tol):.3e}",
                         {"qx": qx[k], "qy": qy[k], "lane": l, "got": r, "exact": fl(exact)})
                    nviol += 1


def check_file(path):
    acc = Acc()
    n = 0
    with open(path) as f:
        for line in f:
            line = line.strip()
            if not line:
                continue
            ev = json.loads(line)
            n += 1
            try:
                if ev["model"] == "interp1":
                    check_interp1(ev, acc)
                elif ev["model"] == "interp2":
                    check_interp2(ev, acc)
            except Exception as e:  # checker failure is never a violation
                import traceback
                acc.inconclusive += 1
                acc.count("checker-error:" + type(e).__name__ + ":" +
                          traceback.format_exc().strip().splitlines()[-3].strip()[:120])
    return {"events": n, "values": acc.values, "viol": acc.viol, "ratio": acc.ratio,
            "inconclusive": acc.inconclusive, "counts": acc.counts}


def split_lines(path, parts):
    """split a log file into several temp files so that all cores are used"""
    with open(path) as f:
        lines = f.readlines()
    if len(lines) < 2 * parts:
        return [path]
    out = []
    for p in range(parts):
        pp = f"{path}.part{p}"
        with open(pp, "w") as g:
            g.writelines(lines[p::parts])
        out.append(pp)
    return out


def main():
    out_dir = sys.argv[1]
    jobs = 16
    if "--jobs" in sys.argv:
        jobs = int(sys.argv[sys.argv.index("--jobs") + 1])
    files = sorted(glob.glob(os.path.join(out_dir, "log-*.jsonl")))
    work = []
    per = max(1, jobs // max(1, len(files)))
    for f in files:
        work.extend(split_lines(f, per))
    total = {"events": 0, "values_checked": 0, "violations": [], "max_ratio": {},
             "inconclusive": 0, "counts": {}}
    if work:
        with Pool(min(jobs, len(work))) as pool:
            for r in pool.imap_unordered(check_file, work):
                total["events"] += r["events"]
                total["values_checked"] += r["values"]
                total["violations"].extend(r["viol"])
                total["inconclusive"] += r["inconclusive"]
                for k, v in r["ratio"].items():
                    total["max_ratio"][k] = max(total["max_ratio"].get(k, 0.0), v)
                for k, v in r["counts"].items():
                    total["counts"][k] = total["counts"].get(k, 0) + v
    for w in work:
        if ".part" in w:
            os.remove(w)
    total["violations"].sort(key=lambda v: (v["case"], v["sig"]))
    total["violations"] = total["violations"][:40]
    with open(os.path.join(out_dir, "oracle.json"), "w") as f:
        json.dump(total, f)
    print(f"[oracle] events={total['events']} values={total['values_checked']} "
          f"violations={len(total['violations'])} inconclusive={total['inconclusive']} "
          f"max_ratio={ {k: round(v, 4) for k, v in total['max_ratio'].items()} }")


if __name__ == "__main__":
    main()
