//! Element-type abstraction for the float monitors (f64 and f32).
//! No imprecise float intrinsic (powf, exp, ...) is used anywhere in the harness:
//! powers of two are built from bit patterns, so the harness is bit-reproducible
//! natively and under Miri.

use ndarray::ScalarOperand;
use ndarray_interp::interp1d::cubic_spline::SplineNum;
use std::fmt::Debug;

pub trait Flt:
    SplineNum
    + num_traits::Float
    + ScalarOperand
    + Copy
    + Debug
    + PartialOrd
    + Default
    + Send
    + Sync
    + 'static
{
    const NAME: &'static str;
    /// number of explicitly stored mantissa bits
    const MANT: u32;
    fn bits(self) -> u64;
    fn from_bits64(b: u64) -> Self;
    /// exact widening
    fn f(self) -> f64;
    /// rounding conversion
    fn of(v: f64) -> Self;
    fn up(self) -> Self;
    fn down(self) -> Self;
    fn hex(self) -> String {
        format!("{:x}", self.bits())
    }
    /// a quiet NaN with a payload that no arithmetic in the crate can produce
    fn sentinel(k: u64) -> Self;
    fn is_sentinel(self) -> bool;
    /// 2^e, exact, for e in the normal range
    fn pow2(e: i32) -> Self;
}

impl Flt for f64 {
    const NAME: &'static str = "f64";
    const MANT: u32 = 52;
    fn bits(self) -> u64 {
        self.to_bits()
    }
    fn from_bits64(b: u64) -> Self {
        f64::from_bits(b)
    }
    fn f(self) -> f64 {
        self
    }
    fn of(v: f64) -> Self {
        v
    }
    fn up(self) -> Self {
        self.next_up()
    }
    fn down(self) -> Self {
        self.next_down()
    }
    fn sentinel(k: u64) -> Self {
        f64::from_bits(0x7ff8_5e47_0000_0000 | (k & 0xffff_ffff))
    }
    fn is_sentinel(self) -> bool {
        self.to_bits() >> 32 == 0x7ff8_5e47
    }
    fn pow2(e: i32) -> Self {
        assert!((-1022..=1023).contains(&e));
        f64::from_bits(((e + 1023) as u64) << 52)
    }
}

impl Flt for f32 {
    const NAME: &'static str = "f32";
    const MANT: u32 = 23;
    fn bits(self) -> u64 {
        self.to_bits() as u64
    }
    fn from_bits64(b: u64) -> Self {
        f32::from_bits(b as u32)
    }
    fn f(self) -> f64 {
        self as f64
    }
    fn of(v: f64) -> Self {
        v as f32
    }
    fn up(self) -> Self {
        self.next_up()
    }
    fn down(self) -> Self {
        self.next_down()
    }
    fn sentinel(k: u64) -> Self {
        f32::from_bits(0x7fc5_e000 | ((k as u32) & 0xfff))
    }
    fn is_sentinel(self) -> bool {
        self.to_bits() >> 12 == 0x7fc5_e
    }
    fn pow2(e: i32) -> Self {
        assert!((-126..=127).contains(&e));
        f32::from_bits(((e + 127) as u32) << 23)
    }
}

pub fn bits_eq<T: Flt>(a: T, b: T) -> bool {
    a.bits() == b.bits()
}

/// bitwise comparison of two arrays of the same logical shape
pub fn arr_bits_eq<T: Flt, D: ndarray::Dimension>(
    a: &ndarray::ArrayBase<impl ndarray::Data<Elem = T>, D>,
    b: &ndarray::ArrayBase<impl ndarray::Data<Elem = T>, D>,
) -> bool {
    a.shape() == b.shape() && a.iter().zip(b.iter()).all(|(x, y)| same_bits(*x, *y))
}

/// identical bit patterns; two NaNs count as the same whatever their sign and payload
#[allow(clippy::eq_op)]
pub fn same_bits<T: Flt>(x: T, y: T) -> bool {
    x.bits() == y.bits() || (x != x && y != y)
}
