//! instantiations of the interpolator zoo: bilinear / f32 (see vh-core::dynapi)
vh_core::def_with2!(with, f32, bilinear, [oo lean] [oo lean] [oo lean] [oo lean] [oo lean] [oo lean]);
