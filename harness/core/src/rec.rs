//! Recording / failing user-defined strategies for Interp1D and Interp2D.
//!
//! User strategies are the crate's own extension point, so they double as a probe at
//! the API boundary: they see exactly which axis/data the builder hands to `build`
//! and which target sub-view is handed out for which query value.

use crate::flt::Flt;
use ndarray::{ArrayBase, ArrayViewMut, Data, Dimension, Ix1, RemoveAxis};
use ndarray_interp::interp1d::{Interp1D, Interp1DStrategy, Interp1DStrategyBuilder};
use ndarray_interp::interp2d::{Interp2D, Interp2DStrategy, Interp2DStrategyBuilder};
use ndarray_interp::{BuilderError, InterpolateError};
use std::sync::{Arc, Mutex};

#[derive(Clone, Debug, Default)]
pub struct BuildRec {
    pub x_bits: Vec<u64>,
    pub y_bits: Option<Vec<u64>>,
    pub data_shape: Vec<usize>,
    /// bits of all data elements in logical order
    pub data_bits: Vec<u64>,
}

#[derive(Clone, Debug, Default)]
pub struct CallRec {
    pub x_bits: u64,
    pub y_bits: Option<u64>,
    pub target_shape: Vec<usize>,
    pub target_strides: Vec<isize>,
    /// address of the first element of the target (0 when the target is empty)
    pub target_ptr: usize,
    pub failed: bool,
}

#[derive(Clone, Debug, Default)]
pub struct RecState {
    pub builds: Vec<BuildRec>,
    pub calls: Vec<CallRec>,
    /// fail `build` with this (kind, message)
    pub fail_build: Option<(String, String)>,
    /// fail the interp_into call with this index (counted from the last `reset_calls`)
    pub fail_at: Option<usize>,
    pub fail_msg: String,
    /// do not write the target (used to test the monitors themselves)
    pub skip_write: bool,
}

#[derive(Clone, Debug, Default)]
pub struct RecHandle(pub Arc<Mutex<RecState>>);

impl RecHandle {
    pub fn new() -> Self {
        Self::default()
    }
    pub fn lock(&self) -> std::sync::MutexGuard<'_, RecState> {
        self.0.lock().unwrap_or_else(|e| e.into_inner())
    }
    pub fn reset_calls(&self) {
        self.lock().calls.clear();
    }
    pub fn take_calls(&self) -> Vec<CallRec> {
        std::mem::take(&mut self.lock().calls)
    }
}

/// the value the recording strategy writes for query x (and y) into lane number `lane`
pub fn code1<T: Flt>(x: T, lane: usize) -> T {
    T::of(x.f() * 256.0 + lane as f64)
}
pub fn code2<T: Flt>(x: T, y: T, lane: usize) -> T {
    T::of((x.f() * 64.0 + y.f()) * 256.0 + lane as f64)
}

fn mk_builder_err(kind: &str, msg: &str) -> BuilderError {
    match kind {
        "NotEnoughData" => BuilderError::NotEnoughData(msg.to_string()),
        "Monotonic" => BuilderError::Monotonic(msg.to_string()),
        "ShapeError" => BuilderError::ShapeError(msg.to_string()),
        _ => BuilderError::ValueError(msg.to_string()),
    }
}

/// 1-D recording strategy with declared minimum `MIN`
pub struct Rec1<const MIN: usize> {
    pub h: RecHandle,
}

impl<const MIN: usize> std::fmt::Debug for Rec1<MIN> {
    fn fmt(&self, f: &mut std::fmt::Formatter<'_>) -> std::fmt::Result {
        write!(f, "Rec1<{MIN}>")
    }
}

impl<Sd, Sx, D, const MIN: usize> Interp1DStrategyBuilder<Sd, Sx, D> for Rec1<MIN>
where
    Sd: Data,
    Sd::Elem: Flt,
    Sx: Data<Elem = Sd::Elem>,
    D: Dimension + RemoveAxis,
{
    const MINIMUM_DATA_LENGHT: usize = MIN;
    type FinishedStrat = Rec1<MIN>;

    fn build<Sx2>(
        self,
        x: &ArrayBase<Sx2, Ix1>,
        data: &ArrayBase<Sd, D>,
    ) -> Result<Self::FinishedStrat, BuilderError>
    where
        Sx2: Data<Elem = Sd::Elem>,
    {
        let mut st = self.h.lock();
        st.builds.push(BuildRec {
            x_bits: x.iter().map(|v| v.bits()).collect(),
            y_bits: None,
            data_shape: data.shape().to_vec(),
            data_bits: data.iter().map(|v| v.bits()).collect(),
        });
        if let Some((k, m)) = st.fail_build.clone() {
            return Err(mk_builder_err(&k, &m));
        }
        drop(st);
        Ok(self)
    }
}

impl<Sd, Sx, D, const MIN: usize> Interp1DStrategy<Sd, Sx, D> for Rec1<MIN>
where
    Sd: Data,
    Sd::Elem: Flt,
    Sx: Data<Elem = Sd::Elem>,
    D: Dimension + RemoveAxis,
{
    fn interp_into(
        &self,
        _interpolator: &Interp1D<Sd, Sx, D, Self>,
        mut target: ArrayViewMut<'_, Sd::Elem, D::Smaller>,
        x: Sx::Elem,
    ) -> Result<(), InterpolateError> {
        let mut st = self.h.lock();
        let idx = st.calls.len();
        let fail = st.fail_at == Some(idx);
        st.calls.push(CallRec {
            x_bits: x.bits(),
            y_bits: None,
            target_shape: target.shape().to_vec(),
            target_strides: target.strides().to_vec(),
            target_ptr: if target.is_empty() {
                0
            } else {
                target.as_ptr() as usize
            },
            failed: fail,
        });
        if fail {
            return Err(InterpolateError::OutOfBounds(st.fail_msg.clone()));
        }
        let skip = st.skip_write;
        drop(st);
        if !skip {
            for (lane, t) in target.iter_mut().enumerate() {
                *t = code1(x, lane);
            }
        }
        Ok(())
    }
}

/// 2-D recording strategy with declared minimum `MIN`
pub struct Rec2<const MIN: usize> {
    pub h: RecHandle,
}

impl<const MIN: usize> std::fmt::Debug for Rec2<MIN> {
    fn fmt(&self, f: &mut std::fmt::Formatter<'_>) -> std::fmt::Result {
        write!(f, "Rec2<{MIN}>")
    }
}

impl<Sd, Sx, Sy, D, const MIN: usize> Interp2DStrategyBuilder<Sd, Sx, Sy, D> for Rec2<MIN>
where
    Sd: Data,
    Sd::Elem: Flt,
    Sx: Data<Elem = Sd::Elem>,
    Sy: Data<Elem = Sd::Elem>,
    D: Dimension + RemoveAxis,
    D::Smaller: RemoveAxis,
{
    const MINIMUM_DATA_LENGHT: usize = MIN;
    type FinishedStrat = Rec2<MIN>;

    fn build(
        self,
        x: &ArrayBase<Sx, Ix1>,
        y: &ArrayBase<Sy, Ix1>,
        data: &ArrayBase<Sd, D>,
    ) -> Result<Self::FinishedStrat, BuilderError> {
        let mut st = self.h.lock();
        st.builds.push(BuildRec {
            x_bits: x.iter().map(|v| v.bits()).collect(),
            y_bits: Some(y.iter().map(|v| v.bits()).collect()),
            data_shape: data.shape().to_vec(),
            data_bits: data.iter().map(|v| v.bits()).collect(),
        });
        if let Some((k, m)) = st.fail_build.clone() {
            return Err(mk_builder_err(&k, &m));
        }
        drop(st);
        Ok(self)
    }
}

impl<Sd, Sx, Sy, D, const MIN: usize> Interp2DStrategy<Sd, Sx, Sy, D> for Rec2<MIN>
where
    Sd: Data,
    Sd::Elem: Flt,
    Sx: Data<Elem = Sd::Elem>,
    Sy: Data<Elem = Sd::Elem>,
    D: Dimension + RemoveAxis,
    D::Smaller: RemoveAxis,
{
    fn interp_into(
        &self,
        _interpolator: &Interp2D<Sd, Sx, Sy, D, Self>,
        mut target: ArrayViewMut<'_, Sd::Elem, <D::Smaller as Dimension>::Smaller>,
        x: Sx::Elem,
        y: Sy::Elem,
    ) -> Result<(), InterpolateError> {
        let mut st = self.h.lock();
        let idx = st.calls.len();
        let fail = st.fail_at == Some(idx);
        st.calls.push(CallRec {
            x_bits: x.bits(),
            y_bits: Some(y.bits()),
            target_shape: target.shape().to_vec(),
            target_strides: target.strides().to_vec(),
            target_ptr: if target.is_empty() {
                0
            } else {
                target.as_ptr() as usize
            },
            failed: fail,
        });
        if fail {
            return Err(InterpolateError::OutOfBounds(st.fail_msg.clone()));
        }
        let skip = st.skip_write;
        drop(st);
        if !skip {
            for (lane, t) in target.iter_mut().enumerate() {
                *t = code2(x, y, lane);
            }
        }
        Ok(())
    }
}
