"""Per-property configuration of ./check: driver binary, legs per tier, observation gates."""

N = ("native", 1.0)

PROPS = {
    "C01": dict(bin="c01", oracle=True,
                legs={"quick": [N], "thorough": [N]},
                gates=[("hist_keys_min", "axis_class", 7), ("hist_keys_min", "entry", 3),
                       ("nontrivial_min", 100)],
                assumptions=["tolerance 16*2^-52*Y (2^-23 for f32) with Y the larger bracketing magnitude; "
                             "derived bound of the crate's formula is 11u*Y",
                             "python3 fractions is exact"]),
    "C02": dict(bin="c02", oracle=True,
                legs={"quick": [N], "thorough": [N]},
                gates=[("hist_keys_min", "ordered_pair", 25), ("nontrivial_min", 50)],
                assumptions=["tolerance = 2^13 * u * (1+rho) * G * amplification of the exact differentiation "
                             "weights actually used (see DESIGN 2.4 / C02)"]),
    "C03": dict(bin="c03", oracle=True,
                legs={"quick": [N], "thorough": [N, ("o0", 0.25)]},
                gates=[("hist_keys_min", "ordered_pair", 25), ("nontrivial_min", 50)],
                assumptions=["value tolerance = 2^13 * u * (1+rho) * G * max(1,|t|,|1-t|)^3 (DESIGN 2.4)",
                             "reference spline: exact moment formulation, sparse Gaussian elimination"]),
    "C04": dict(bin="c04", oracle=True,
                legs={"quick": [N], "thorough": [N]},
                gates=[("counter_min", "transpose_compared", 1000), ("counter_min", "grid_line_compared", 200),
                       ("hist_keys_min", "entry", 3), ("nontrivial_min", 100)],
                assumptions=["blend tolerance 64*2^-52*Z (three nested two-point formulas: <= ~35u*Z), "
                             "grid line 80, transpose 128"]),
    "C06": dict(bin="c06", oracle=True,
                legs={"quick": [N], "thorough": [N]},
                gates=[("counter_min", "inrange_compared", 1000), ("counter_min", "outside_answered", 1000),
                       ("hist_keys_min", "strategy", 3), ("hist_keys_min", "outside_in", 3)],
                assumptions=["outside tolerances: line 16*2^-52*Y*(1+2|t|), spline tol*max(1,|t|,|1-t|)^3, "
                             "bilinear 64*2^-52*Z*(1+2|tx|)(1+2|ty|)"]),
    "C07": dict(bin="c07", oracle=True,
                legs={"quick": [N], "thorough": [N]},
                gates=[("hist_keys_min", "n_class", 3), ("hist_keys_min", "uniform", 2),
                       ("hist_keys_min", "x0_sign", 2)],
                assumptions=["bound = spline tolerance + L*delta, L exact bound of |S'|, "
                             "delta = 4u(|q|+|x0|+P) (rounding of the wrapped argument)"]),
    "C16": dict(bin="c16", oracle=True,
                legs={"quick": [N], "thorough": [N, ("o0", 0.25)]},
                gates=[("hist_keys_min", "strategy", 3), ("hist_keys_min", "boundary", 4),
                       ("hist_keys_min", "extrapolate", 2), ("nontrivial_min", 100)],
                assumptions=["data are exactly p(x_i) (integer arithmetic in the driver)",
                             "tolerances as C01 / C03 / C04"]),
}
