//! `vh-core` - verification harness library for ndarray-interp (runtime monitoring).
//! See /verif/DESIGN.md.

pub use ndarray;
pub use ndarray_interp;

pub mod c19;
pub mod cases;
pub mod dynapi;
pub mod events;
pub mod flt;
pub mod gen;
pub mod json;
pub mod lay;
pub mod outcome;
pub mod rec;
pub mod report;
pub mod rng;
pub mod spec;

pub use dynapi::{Built1, Built2, DynInterp1, DynInterp2};
pub use flt::Flt;
pub use json::J;
pub use outcome::Outcome;
pub use report::{Args, Ev, EventLog};
pub use rng::Rng;
