//! C17 - an interpolator is immutable: answers do not depend on history or concurrency.
//! In-process: random histories (all entry points; in-range, out-of-range, NaN queries;
//! wrong-shaped buffers that panic) are replayed in order, in random permutations and split
//! over 2..16 threads sharing one interpolator; every result must equal, bit for bit, the
//! result of the same operation on a *fresh* interpolator; the Debug rendering of the
//! interpolator must not change. Threads record tickets from a global counter so that the
//! evidence can state which interleavings and overlaps were actually observed.
//! The `Send + Sync` clause is a compile-time assertion (see `assert_send_sync`).

use std::collections::HashSet;
use std::sync::atomic::{AtomicU64, Ordering};
use vh::cases::*;
use vh::gen::*;
use vh::ndarray::{Array1, ArrayD, Axis, IxDyn, OwnedArcRepr, OwnedRepr};
use vh::ndarray_interp::interp1d::cubic_spline::{BoundaryCondition, CubicSpline, CubicSplineStrategy};
use vh::ndarray_interp::interp1d::{Interp1D, Interp1DBuilder, Linear};
use vh::ndarray_interp::interp2d::{Bilinear, Interp2D, Interp2DBuilder};
use vh::report::*;
use vh::spec::*;
use vh::*;

// ---- compile-time clause: interpolators over thread-safe storage are Send and Sync -------
fn is_send_sync<T: Send + Sync>() {}

#[allow(dead_code)]
fn assert_send_sync() {
    use vh::ndarray::{Ix1, Ix2, Ix3};
    type O = OwnedRepr<f64>;
    type A = OwnedArcRepr<f64>;
    is_send_sync::<Interp1D<O, O, Ix1, Linear>>();
    is_send_sync::<Interp1D<O, O, Ix2, Linear>>();
    is_send_sync::<Interp1D<O, O, IxDyn, Linear>>();
    is_send_sync::<Interp1D<A, A, Ix2, Linear>>();
    is_send_sync::<Interp1D<O, O, Ix1, CubicSplineStrategy<O, Ix1>>>();
    is_send_sync::<Interp1D<O, O, Ix3, CubicSplineStrategy<O, Ix3>>>();
    is_send_sync::<Interp1D<A, A, IxDyn, CubicSplineStrategy<A, IxDyn>>>();
    is_send_sync::<Interp2D<O, O, O, Ix2, Bilinear>>();
    is_send_sync::<Interp2D<O, O, O, Ix3, Bilinear>>();
    is_send_sync::<Interp2D<A, A, A, IxDyn, Bilinear>>();
    is_send_sync::<Interp1D<OwnedRepr<f32>, OwnedRepr<f32>, Ix2, Linear>>();
}

// ---- operations ------------------------------------------------------------------------

#[derive(Clone, Debug)]
enum Op {
    One(f64),
    Scalar(f64),
    OneInto(f64, Vec<usize>),
    Many(QKind, Vec<usize>, Vec<f64>),
    ManyInto(QKind, Vec<usize>, Vec<f64>, Vec<usize>),
    Point(usize),
    LeftOf(f64),
    InRange(f64),
    /// 2-D only: both coordinates given explicitly (1-D scenarios use the first one)
    Pair(f64, f64),
    PairScalar(f64, f64),
}

type Res = Outcome<Vec<u64>>;

fn arr_bits(o: Outcome<ArrayD<f64>>) -> Res {
    o.map(|a| {
        let mut v: Vec<u64> = a.shape().iter().map(|&s| s as u64).collect();
        v.push(u64::MAX);
        v.extend(a.iter().map(|x| x.to_bits()));
        v
    })
}

fn same(a: &Res, b: &Res) -> bool {
    match (a, b) {
        (Outcome::Ok(x), Outcome::Ok(y)) => x == y,
        (Outcome::Err(k1, m1), Outcome::Err(k2, m2)) => k1 == k2 && m1 == m2,
        (Outcome::Panic(_), Outcome::Panic(_)) => true,
        (Outcome::Untypeable, Outcome::Untypeable) => true,
        _ => false,
    }
}

fn exec1(i: &dyn DynInterp1<f64>, op: &Op) -> Res {
    match op {
        Op::One(q) => arr_bits(i.one(*q)),
        Op::Scalar(q) => i.scalar(*q).map(|v| vec![v.to_bits()]),
        Op::OneInto(q, shape) => {
            let mut b = ArrayD::<f64>::from_elem(IxDyn(shape), f64::sentinel(1));
            let o = i.one_into(*q, b.view_mut());
            arr_bits(o.map(|_| b))
        }
        Op::Many(k, s, v) => arr_bits(i.many(&Query::from_vec(v.clone(), s, *k))),
        Op::ManyInto(k, s, v, bs) => {
            let mut b = ArrayD::<f64>::from_elem(IxDyn(bs), f64::sentinel(2));
            let o = i.many_into(&Query::from_vec(v.clone(), s, *k), b.view_mut());
            arr_bits(o.map(|_| b))
        }
        Op::Point(k) => i.point(*k).map(|(x, a)| {
            let mut v = vec![x.to_bits()];
            v.extend(a.iter().map(|y| y.to_bits()));
            v
        }),
        Op::LeftOf(q) => i.left_of(*q).map(|k| vec![k as u64]),
        Op::InRange(q) => i.in_range(*q).map(|b| vec![b as u64]),
        Op::Pair(q, _) => arr_bits(i.one(*q)),
        Op::PairScalar(q, _) => i.scalar(*q).map(|v| vec![v.to_bits()]),
    }
}

/// 2-D histories: calls whose coordinates fail independently, and the "repair and retry"
/// pattern - a successful call, a call rejected because of one coordinate only, then the same
/// call again with that coordinate repaired (the other coordinate bit-identical)
fn inject_pair_patterns(rng: &mut Rng, ops: &mut Vec<Op>, x: &[f64], y: &[f64], scalar_ok: bool) {
    let (xl, xh, yl, yh) = (x[0], x[x.len() - 1], y[0], y[y.len() - 1]);
    let n_patterns = (ops.len() / 12).max(2);
    for _ in 0..n_patterns {
        let (xa, ya) = (rand_in(rng, xl, xh), rand_in(rng, yl, yh));
        let (xb, yb) = (rand_in(rng, xl, xh), rand_in(rng, yl, yh));
        let bad_y = *rng.pick(&[yh.next_up(), yl.next_down(), yh + (yh - yl), f64::NAN]);
        let bad_x = *rng.pick(&[xh.next_up(), xl.next_down(), xl - (xh - xl), f64::NAN]);
        // a y close to ya (mostly the same y cell), an x close to xa
        let yc = (ya + (yh - yl) * 1e-3 * rng.f01()).min(yh);
        let xc = (xa + (xh - xl) * 1e-3 * rng.f01()).min(xh);
        let mk = |rng: &mut Rng, a: f64, b: f64| if scalar_ok && rng.chance(0.3) { Op::PairScalar(a, b) } else { Op::Pair(a, b) };
        let triple: Vec<Op> = match rng.below(4) {
            0 => vec![mk(rng, xa, ya), mk(rng, xb, bad_y), mk(rng, xb, yc)],
            1 => vec![mk(rng, xa, ya), mk(rng, bad_x, yb), mk(rng, xc, yb)],
            2 => vec![mk(rng, xa, ya), mk(rng, xb, bad_y), mk(rng, xb, ya)],
            _ => vec![mk(rng, xa, ya), mk(rng, xa, bad_y), mk(rng, xb, ya), mk(rng, xa, yc)],
        };
        let at = rng.below(ops.len() + 1);
        for (k, op) in triple.into_iter().enumerate() {
            ops.insert(at + k, op);
        }
    }
}

fn exec2(i: &dyn DynInterp2<f64>, op: &Op, ymap: &dyn Fn(f64) -> f64) -> Res {
    match op {
        Op::One(q) => arr_bits(i.one(*q, ymap(*q))),
        Op::Scalar(q) => i.scalar(*q, ymap(*q)).map(|v| vec![v.to_bits()]),
        Op::OneInto(q, shape) => {
            let mut b = ArrayD::<f64>::from_elem(IxDyn(shape), f64::sentinel(1));
            let o = i.one_into(*q, ymap(*q), b.view_mut());
            arr_bits(o.map(|_| b))
        }
        Op::Many(k, s, v) => {
            let vy: Vec<f64> = v.iter().map(|q| ymap(*q)).collect();
            arr_bits(i.many(&Query::from_vec(v.clone(), s, *k), &Query::from_vec(vy, s, *k)))
        }
        Op::ManyInto(k, s, v, bs) => {
            let vy: Vec<f64> = v.iter().map(|q| ymap(*q)).collect();
            let mut b = ArrayD::<f64>::from_elem(IxDyn(bs), f64::sentinel(2));
            let o = i.many_into(&Query::from_vec(v.clone(), s, *k), &Query::from_vec(vy, s, *k), b.view_mut());
            arr_bits(o.map(|_| b))
        }
        Op::Point(k) => i.point(*k, 0).map(|(x, y, a)| {
            let mut v = vec![x.to_bits(), y.to_bits()];
            v.extend(a.iter().map(|z| z.to_bits()));
            v
        }),
        Op::LeftOf(q) => i.left_of(*q, ymap(*q)).map(|(a, b)| vec![a as u64, b as u64]),
        Op::InRange(q) => i.in_range_x(*q).map(|b| vec![b as u64]),
        Op::Pair(a, b) => arr_bits(i.one(*a, *b)),
        Op::PairScalar(a, b) => i.scalar(*a, *b).map(|v| vec![v.to_bits()]),
    }
}

fn gen_history(rng: &mut Rng, x: &[f64], lane_shape: &[usize], len: usize, extrapolating: bool) -> Vec<Op> {
    let lo = x[0];
    let hi = x[x.len() - 1];
    let span = hi - lo;
    let pick_q = |rng: &mut Rng| -> f64 {
        match rng.below(12) {
            0 => lo,
            1 => hi,
            2 => lo.next_down(),
            3 => hi.next_up(),
            4 => {
                if extrapolating {
                    hi + span * 3.0
                } else {
                    f64::NAN
                }
            }
            5 => lo - span * rng.f01(),
            6 => x[rng.below(x.len())],
            _ => rand_in(rng, lo, hi),
        }
    };
    let mut ops = Vec::with_capacity(len);
    for _ in 0..len {
        let op = match rng.below(10) {
            0 | 1 => Op::One(pick_q(rng)),
            2 => Op::Scalar(pick_q(rng)),
            3 => {
                let mut s = lane_shape.to_vec();
                if rng.chance(0.3) {
                    // wrong shaped buffer: the call panics
                    if s.is_empty() {
                        s.push(2);
                    } else {
                        s[0] += 1;
                    }
                }
                Op::OneInto(pick_q(rng), s)
            }
            4 | 5 | 6 => {
                let kind = *rng.pick(&[QKind::S0, QKind::S1, QKind::S2, QKind::Dyn]);
                let shape: Vec<usize> = match kind {
                    QKind::S0 => vec![],
                    QKind::S1 => vec![1 + rng.below(5)],
                    QKind::S2 => vec![2, 1 + rng.below(3)],
                    _ => vec![1 + rng.below(4)],
                };
                let n: usize = shape.iter().product();
                let vals: Vec<f64> = (0..n).map(|_| if rng.chance(0.9) { rand_in(rng, lo, hi) } else { pick_q(rng) }).collect();
                if rng.chance(0.5) {
                    Op::Many(kind, shape, vals)
                } else {
                    let mut bs = shape.clone();
                    bs.extend(lane_shape);
                    if rng.chance(0.3) && !bs.is_empty() {
                        let k = rng.below(bs.len());
                        bs[k] += 1;
                    }
                    Op::ManyInto(kind, shape, vals, bs)
                }
            }
            7 => Op::Point(rng.below(x.len())),
            8 => Op::LeftOf(pick_q(rng)),
            _ => Op::InRange(pick_q(rng)),
        };
        ops.push(op);
    }
    ops
}

static TICKET: AtomicU64 = AtomicU64::new(0);

struct Trace {
    thread: usize,
    op: usize,
    start: u64,
    end: u64,
}

/// run the history split over `threads` threads sharing `run`; returns per-op results + traces
fn run_threaded(ops: &[Op], threads: usize, run: &(dyn Fn(&Op) -> Res + Sync)) -> (Vec<Option<Res>>, Vec<Trace>) {
    let mut results: Vec<Option<Res>> = (0..ops.len()).map(|_| None).collect();
    let mut traces: Vec<Trace> = Vec::new();
    let chunks: Vec<Vec<usize>> = (0..threads).map(|t| (t..ops.len()).step_by(threads).collect()).collect();
    let outs: Vec<Vec<(usize, Res, u64, u64)>> = std::thread::scope(|s| {
        let hs: Vec<_> = chunks
            .iter()
            .map(|idxs| {
                s.spawn(move || {
                    let mut out = Vec::with_capacity(idxs.len());
                    for &k in idxs {
                        let st = TICKET.fetch_add(1, Ordering::SeqCst);
                        let r = run(&ops[k]);
                        let en = TICKET.fetch_add(1, Ordering::SeqCst);
                        out.push((k, r, st, en));
                    }
                    out
                })
            })
            .collect();
        hs.into_iter().map(|h| h.join().expect("worker panicked outside a guarded call")).collect()
    });
    for (t, out) in outs.into_iter().enumerate() {
        for (k, r, st, en) in out {
            results[k] = Some(r);
            traces.push(Trace { thread: t, op: k, start: st, end: en });
        }
    }
    (results, traces)
}

fn analyse(traces: &mut [Trace]) -> (u64, u64) {
    traces.sort_by_key(|t| t.start);
    // interleaving signature: thread ids in start order
    let mut h: u64 = 0xcbf29ce484222325;
    for t in traces.iter() {
        h = (h ^ (t.thread as u64 + 1)).wrapping_mul(0x100000001b3);
    }
    // overlapping pairs from different threads
    let mut overlaps = 0u64;
    for i in 0..traces.len() {
        for j in i + 1..traces.len() {
            if traces[j].start > traces[i].end {
                break;
            }
            if traces[j].thread != traces[i].thread {
                overlaps += 1;
            }
        }
    }
    let _ = traces.iter().map(|t| t.op).count();
    (h, overlaps)
}

struct Scenario<'a> {
    name: String,
    fresh: Box<dyn Fn(&Op) -> Res + 'a>,
    shared: &'a (dyn Fn(&Op) -> Res + Sync),
    digest: &'a dyn Fn() -> String,
}

#[allow(clippy::too_many_arguments)]
fn run_scenario(sc: &Scenario, ops: &[Op], rng: &mut Rng, ev: &mut Ev, case: u64, sigs: &mut HashSet<u64>, max_threads: usize, perms: usize, hammer_iters: usize) {
    let d0 = (sc.digest)();
    let reference: Vec<Res> = ops.iter().map(|op| (sc.fresh)(op)).collect();
    for r in &reference {
        ev.count("reference_outcome", r.tag());
    }
    let replay = |k: usize| J::obj().set("scenario", sc.name.as_str()).set("op_index", k).set("op", format!("{:?}", ops[k])).set("history_len", ops.len());
    // (i) in order on the shared instance
    for (k, op) in ops.iter().enumerate() {
        ev.add("ops_replayed_in_order", 1);
        let r = (sc.shared)(op);
        if !same(&r, &reference[k]) {
            ev.violation(
                "C17:depends-on-history",
                &format!("{}: op #{k} {:?} gives {} after the preceding history but {} on a fresh interpolator", sc.name, op, r.detail(), reference[k].detail()),
                case,
                replay(k),
            );
            return;
        }
    }
    // (ii) permutations
    for _ in 0..perms {
        let mut order: Vec<usize> = (0..ops.len()).collect();
        rng.shuffle(&mut order);
        for &k in &order {
            ev.add("ops_replayed_permuted", 1);
            let r = (sc.shared)(&ops[k]);
            if !same(&r, &reference[k]) {
                ev.violation(
                    "C17:depends-on-order",
                    &format!("{}: op #{k} {:?} gives {} in a permuted history but {} on a fresh interpolator", sc.name, ops[k], r.detail(), reference[k].detail()),
                    case,
                    replay(k),
                );
                return;
            }
        }
    }
    // (iii) concurrent
    for threads in [2usize, 3, 4, 8, 16] {
        if threads > max_threads {
            continue;
        }
        let (results, mut traces) = run_threaded(ops, threads, sc.shared);
        let (sig, overlaps) = analyse(&mut traces);
        if overlaps > 0 {
            sigs.insert(sig);
        }
        ev.add("concurrent_runs", 1);
        ev.add("overlapping_call_pairs", overlaps);
        ev.add("ops_replayed_concurrently", ops.len() as u64);
        ev.count("threads", format!("{threads}"));
        for (k, r) in results.iter().enumerate() {
            let r = r.as_ref().expect("missing result");
            if !same(r, &reference[k]) {
                ev.violation(
                    "C17:depends-on-concurrency",
                    &format!("{}: op #{k} {:?} gives {} with {threads} threads sharing the interpolator but {} on a fresh one", sc.name, ops[k], r.detail(), reference[k].detail()),
                    case,
                    replay(k).set("threads", threads),
                );
                return;
            }
        }
    }
    // (iv) hammer: many threads repeat a small pool of cheap single-query operations in
    // independent random orders, starting together; every answer is compared with the reference
    let pool: Vec<usize> = (0..ops.len())
        .filter(|&k| matches!(ops[k], Op::One(_) | Op::Scalar(_) | Op::LeftOf(_) | Op::InRange(_) | Op::Pair(..) | Op::PairScalar(..)) && !reference[k].is_panic())
        .take(24)
        .collect();
    if !pool.is_empty() && hammer_iters > 0 {
        let threads = max_threads.clamp(2, 8);
        let barrier = std::sync::Barrier::new(threads);
        let seeds: Vec<u64> = (0..threads).map(|_| rng.next_u64()).collect();
        let bad: Vec<Option<(usize, Res)>> = std::thread::scope(|s| {
            let hs: Vec<_> = seeds
                .iter()
                .map(|&seed| {
                    let (pool, reference, barrier, shared) = (&pool, &reference, &barrier, sc.shared);
                    s.spawn(move || {
                        let mut r = Rng::new(seed);
                        barrier.wait();
                        for _ in 0..hammer_iters {
                            let k = pool[r.below(pool.len())];
                            let got = shared(&ops[k]);
                            if !same(&got, &reference[k]) {
                                return Some((k, got));
                            }
                        }
                        None
                    })
                })
                .collect();
            hs.into_iter().map(|h| h.join().expect("hammer thread panicked")).collect()
        });
        ev.add("hammer_ops", (threads * hammer_iters) as u64);
        ev.add("hammer_phases", 1);
        if let Some((k, got)) = bad.into_iter().flatten().next() {
            ev.violation(
                "C17:depends-on-concurrency",
                &format!(
                    "{}: under {threads} threads hammering the shared interpolator, op {:?} gave {} but {} on a fresh interpolator",
                    sc.name,
                    ops[k],
                    got.detail(),
                    reference[k].detail()
                ),
                case,
                replay(k).set("phase", "hammer").set("threads", threads),
            );
            return;
        }
        // and afterwards, single-threaded, the answers must still be the reference ones
        for &k in &pool {
            let got = (sc.shared)(&ops[k]);
            if !same(&got, &reference[k]) {
                ev.violation(
                    "C17:depends-on-history",
                    &format!("{}: after concurrent use, op {:?} gives {} but {} on a fresh interpolator", sc.name, ops[k], got.detail(), reference[k].detail()),
                    case,
                    replay(k).set("phase", "after-hammer"),
                );
                return;
            }
        }
    }
    let d1 = (sc.digest)();
    ev.add("state_digests_compared", 1);
    if d0 != d1 {
        ev.violation("C17:state-changed", &format!("{}: Debug rendering of the interpolator changed after the history", sc.name), case, J::obj().set("scenario", sc.name.as_str()));
    }
}

/// Interpolators that follow one another in the same storage: a view interpolator over buffers
/// that are re-gridded in place between builds, and owned interpolators whose freed blocks the
/// allocator hands out again. What an interpolator answers must not depend on what a
/// predecessor living at the same address was asked - the same bit-identical query is put to
/// every successor directly after its predecessor.
fn storage_reuse(rng: &mut Rng, ev: &mut Ev, case: u64) {
    use vh::ndarray::{ArrayView1, ArrayView2};
    let n = 4 + rng.below(7);
    let rounds = if cfg!(miri) { 3 } else { 6 };
    let spline = case % 2 == 1;
    // grids with common end points (so that one query set is in range for all) and different
    // interior knots
    let grids: Vec<Vec<f64>> = (0..rounds)
        .map(|_| {
            let mut g: Vec<f64> = vec![0.0, 16.0];
            while g.len() < n {
                let v = (1 + rng.below(255)) as f64 / 16.0;
                if !g.contains(&v) {
                    g.push(v);
                }
            }
            g.sort_by(|a, b| a.partial_cmp(b).unwrap());
            g
        })
        .collect();
    let datas: Vec<Vec<f64>> = (0..rounds).map(|_| (0..n).map(|_| rng.f01() * 40.0 - 20.0).collect()).collect();
    let grid2: Vec<Vec<f64>> = (0..rounds).map(|_| (0..n * n).map(|_| rng.f01() * 40.0 - 20.0).collect()).collect();
    let qs: Vec<f64> = (0..if cfg!(miri) { 3 } else { 8 }).map(|_| 0.25 + rng.f01() * 15.5).collect();
    let strat = || CubicSpline::new();
    let bits = |r: Result<f64, vh::ndarray_interp::InterpolateError>| r.map(|v| v.to_bits()).map_err(|e| e.to_string());
    // reference: every (grid, query) on its own freshly allocated, owned interpolator; the
    // query order differs from the reuse passes
    let mut ref1 = vec![vec![Ok(0u64); qs.len()]; rounds];
    let mut ref2 = vec![vec![Ok(0u64); qs.len()]; rounds];
    let mut refi = vec![vec![0usize; qs.len()]; rounds];
    for k in 0..rounds {
        let x = Array1::from(grids[k].clone());
        let d = Array1::from(datas[k].clone());
        let g = vh::ndarray::Array2::from_shape_vec((n, n), grid2[k].clone()).unwrap();
        let b = Interp2DBuilder::new(g).x(x.clone()).y(x.clone()).build().unwrap();
        if spline {
            let i = Interp1DBuilder::new(d).x(x).strategy(strat()).build().unwrap();
            for (j, &q) in qs.iter().enumerate().rev() {
                ref1[k][j] = bits(i.interp_scalar(q));
                refi[k][j] = i.get_index_left_of(q);
            }
        } else {
            let i = Interp1DBuilder::new(d).x(x).strategy(Linear::new()).build().unwrap();
            for (j, &q) in qs.iter().enumerate().rev() {
                ref1[k][j] = bits(i.interp_scalar(q));
                refi[k][j] = i.get_index_left_of(q);
            }
        }
        for (j, &q) in qs.iter().enumerate().rev() {
            ref2[k][j] = bits(b.interp_scalar(q, 16.0 - q));
        }
    }
    let mut bad: Option<String> = None;
    // pass A: views over buffers re-gridded in place
    let mut xbuf = vec![0.0f64; n];
    let mut dbuf = vec![0.0f64; n];
    let mut gbuf = vec![0.0f64; n * n];
    for (j, &q) in qs.iter().enumerate() {
        for k in 0..rounds {
            xbuf.copy_from_slice(&grids[k]);
            dbuf.copy_from_slice(&datas[k]);
            gbuf.copy_from_slice(&grid2[k]);
            let (xv, dv) = (ArrayView1::from(&xbuf[..]), ArrayView1::from(&dbuf[..]));
            let (got, idx) = if spline {
                let i = Interp1DBuilder::new(dv).x(xv).strategy(strat()).build().unwrap();
                (bits(i.interp_scalar(q)), i.get_index_left_of(q))
            } else {
                let i = Interp1DBuilder::new(dv).x(xv).strategy(Linear::new()).build().unwrap();
                (bits(i.interp_scalar(q)), i.get_index_left_of(q))
            };
            ev.add("storage_reuse_same_address_builds", 1);
            ev.add("storage_reuse_queries", 2);
            if got != ref1[k][j] || idx != refi[k][j] {
                bad.get_or_insert(format!(
                    "1-D view interpolator over a buffer re-gridded in place (grid {k}: {:?}), q={q:?}: value bits {:?} / interval {idx}, but {:?} / {} on a freshly allocated interpolator",
                    grids[k], got, ref1[k][j], refi[k][j]
                ));
            }
            let gv = ArrayView2::from_shape((n, n), &gbuf[..]).unwrap();
            let b = Interp2DBuilder::new(gv).x(xv).y(xv).build().unwrap();
            let got2 = bits(b.interp_scalar(q, 16.0 - q));
            ev.add("storage_reuse_queries", 1);
            if got2 != ref2[k][j] {
                bad.get_or_insert(format!(
                    "2-D view interpolator over buffers re-gridded in place (grid {k}), q=({q:?},{:?}): value bits {:?}, but {:?} on a freshly allocated interpolator",
                    16.0 - q, got2, ref2[k][j]
                ));
            }
        }
    }
    // pass B: owned interpolators built and dropped one after the other (the allocator may
    // hand the freed axis block out again; observed reuses are counted)
    let mut last_ptr: *const f64 = std::ptr::null();
    for (j, &q) in qs.iter().enumerate() {
        for k in 0..rounds {
            let x = Array1::from(grids[k].clone());
            let d = Array1::from(datas[k].clone());
            if x.as_ptr() == last_ptr {
                ev.add("storage_reuse_allocator_reuses_observed", 1);
            }
            last_ptr = x.as_ptr();
            let got = if spline {
                bits(Interp1DBuilder::new(d).x(x).strategy(strat()).build().unwrap().interp_scalar(q))
            } else {
                bits(Interp1DBuilder::new(d).x(x).strategy(Linear::new()).build().unwrap().interp_scalar(q))
            };
            ev.add("storage_reuse_queries", 1);
            if got != ref1[k][j] {
                bad.get_or_insert(format!(
                    "owned interpolators built and dropped in a loop (grid {k}: {:?}), q={q:?}: value bits {:?}, but {:?} when evaluated in a different order",
                    grids[k], got, ref1[k][j]
                ));
            }
        }
    }
    if let Some(msg) = bad {
        ev.violation("C17:depends-on-predecessor-in-same-storage", &msg, case, J::obj().set("phase", "storage-reuse").set("n", n));
    }
}

/// Endurance: one interpolator answers tens of millions of look-ups confined to the regular
/// part of an almost uniform axis (anything it might "learn" from its own history gets every
/// chance to settle), then the probes - next to the displaced knots, exactly at knots, at the
/// ends - must still be answered exactly like a fresh interpolator answers them.
fn endurance(ev: &mut Ev, seed: u64, lookups: usize) {
    use vh::ndarray_interp::interp2d::Interp2D;
    let mut rng = Rng::derive(seed, "C17-endurance", &[0]);
    for round in 0..3u64 {
        let n = 12 + rng.below(20);
        let h = *rng.pick(&[1.0, 0.1, 0.3, 0.25]);
        let mut x: Vec<f64> = (0..n).map(|i| i as f64 * h).collect();
        // displaced knots in the right half only
        for k in n / 2 + 1..n - 1 {
            if rng.chance(0.4) {
                x[k] += h * (rng.f01() * 0.8 - 0.4);
            }
        }
        let data: Vec<f64> = x.iter().map(|v| v * v + 1.0).collect();
        let mk = || Interp1DBuilder::new(Array1::from(data.clone())).x(Array1::from(x.clone())).strategy(Linear::new()).build().unwrap();
        let g = vh::ndarray::Array2::from_shape_fn((n, n), |(i, j)| x[i] * 3.0 + x[j] * x[j]);
        let mk2 = || Interp2D::builder(g.clone()).x(Array1::from(x.clone())).y(Array1::from(x.clone())).build().unwrap();
        let mut probes: Vec<f64> = x.clone();
        for w in x.windows(2) {
            probes.push(w[0] + (w[1] - w[0]) * rng.f01());
            probes.push(w[1].next_down());
        }
        let (fresh, fresh2) = (mk(), mk2());
        let want: Vec<(usize, u64, (usize, usize), u64)> = probes
            .iter()
            .map(|&q| (fresh.get_index_left_of(q), fresh.interp_scalar(q).unwrap().to_bits(), fresh2.get_index_left_of(q, x[n - 1] - q + x[0]), fresh2.interp_scalar(q, x[n - 1] - q + x[0]).unwrap().to_bits()))
            .collect();
        let (old, old2) = (mk(), mk2());
        // the regular part: strictly inside the first half of the axis
        let (lo, hi) = (x[0] + h * 0.01, x[n / 2 - 1]);
        let mut acc = 0usize;
        let mut q = lo;
        let step = (hi - lo) / 1021.0;
        // first half: cell centres of the regular part (a guess can hardly be more right);
        // second half: a fine sweep through the same part
        let cells = n / 2 - 1;
        for i in 0..lookups / 2 {
            let c = (i % cells) as f64 + 0.5;
            acc = acc.wrapping_add(old.get_index_left_of(x[0] + c * h));
            if i % 8 == 0 {
                let (a, b) = old2.get_index_left_of(x[0] + c * h, x[0] + 0.5 * h);
                acc = acc.wrapping_add(a + b);
            }
        }
        for i in 0..lookups / 2 {
            acc = acc.wrapping_add(old.get_index_left_of(q));
            if i % 4 == 0 {
                let (a, b) = old2.get_index_left_of(q, lo + (hi - q));
                acc = acc.wrapping_add(a + b);
            }
            q += step;
            if q >= hi {
                q = lo + step * 0.37;
            }
        }
        ev.add("endurance_lookups", (lookups + lookups / 4) as u64);
        std::hint::black_box(acc);
        for (k, &p) in probes.iter().enumerate() {
            ev.add("endurance_probes", 1);
            let got = (old.get_index_left_of(p), old.interp_scalar(p).unwrap().to_bits(), old2.get_index_left_of(p, x[n - 1] - p + x[0]), old2.interp_scalar(p, x[n - 1] - p + x[0]).unwrap().to_bits());
            if got != want[k] {
                ev.violation(
                    "C17:depends-on-earlier-queries",
                    &format!(
                        "after {lookups} look-ups in the regular part of x={:?}: probe q={p:?} answered (interval {}, value {:?}; 2-D cell {:?}, value {:?}), a fresh interpolator (interval {}, value {:?}; 2-D cell {:?}, value {:?})",
                        x, got.0, f64::from_bits(got.1), got.2, f64::from_bits(got.3), want[k].0, f64::from_bits(want[k].1), want[k].2, f64::from_bits(want[k].3)
                    ),
                    9_970_000 + round,
                    J::obj().set("phase", "endurance").set("lookups", lookups),
                );
                return;
            }
        }
    }
}

fn main() {
    let args = Args::parse("C17");
    let n_cases = args.budget(24, 600);
    let hist_len = args.extra_u64("history").unwrap_or(if args.thorough() { 300 } else { 120 }) as usize;
    let max_threads = args.extra_u64("max-threads").unwrap_or(16) as usize;
    let hammer_iters = args.extra_u64("hammer").unwrap_or(if args.thorough() { 100_000 } else { 30_000 }) as usize;
    let perms = args.extra_u64("perms").unwrap_or(if args.thorough() { 10 } else { 3 }) as usize;
    let mut ev = Ev::new();
    let mut sigs: HashSet<u64> = HashSet::new();
    for case in 0..n_cases {
        if let Some(only) = args.only {
            if only != case {
                continue;
            }
        }
        if !args.mine(case) {
            continue;
        }
        let mut rng = Rng::derive(args.seed, "C17", &[case]);
        storage_reuse(&mut Rng::derive(args.seed, "C17-reuse", &[case]), &mut ev, case);
        match case % 4 {
            // Linear over owned storage, Ix2
            0 => {
                // now and then a long axis (thousands of knots), hammered four times as long
                let long = case % 12 == 8 && !cfg!(miri);
                let n = if long { 4500 + rng.below(1000) } else { 4 + rng.below(8) };
                let cls = *rng.pick(&AxisClass::SMOOTH);
                let x: Vec<f64> = gen_axis(&mut rng, n, cls, &AxisOpts::linear());
                let data: ArrayD<f64> = gen_data(&mut rng, &[n, 3], DataClass::FullMantissa, (0, 0));
                let d2 = data.clone().into_dimensionality::<vh::ndarray::Ix2>().unwrap();
                let mk = || Interp1DBuilder::new(d2.clone()).x(Array1::from(x.clone())).strategy(Linear::new()).build().unwrap();
                let shared = mk();
                let ops = gen_history(&mut rng, &x, &[3], hist_len, false);
                let run = |op: &Op| exec1(&shared, op);
                let dig = || format!("{:?}", shared);
                let sc = Scenario { name: "Interp1D<owned, Ix2, Linear>".into(), fresh: Box::new(|op| exec1(&mk(), op)), shared: &run, digest: &dig };
                ev.case(hash_bits(&[&bits_of(&x)], &["lin"]), true);
                ev.count("scenario", &sc.name);
                if long {
                    ev.add("long_axis_scenarios", 1);
                }
                run_scenario(&sc, &ops, &mut rng, &mut ev, case, &mut sigs, max_threads, perms, if long { hammer_iters * 4 } else { hammer_iters });
            }
            // CubicSpline (random boundary) over owned storage, Ix2, extrapolating sometimes
            1 => {
                let (spec, _) = gen_spline_case::<f64>(&mut rng, &SplineOpts { max_n: 12, max_lane_rank: 1, extrapolate: case % 8 == 1, ..Default::default() });
                let x = spec.axis();
                let lanes = spec.lane_shape();
                let extr = spec.strat.extrapolates();
                let ops = gen_history(&mut rng, &x, &lanes, hist_len, extr);
                // built through the type-erased builder: one shared instance + fresh ones
                let name = format!("Interp1D<owned, {}, {}>", spec.dim_name(), spec.strat.name());
                ev.case(hash_bits(&[&bits_of(&x), &bits_of_arr(&spec.data)], &[&name]), true);
                ev.count("scenario", "Interp1D<owned, *, CubicSpline>");
                // the type-erased object is not Sync by type; use the concrete type for sharing
                let bc = |b: &Bound<f64>| -> BoundaryCondition<f64, IxDyn> {
                    match b {
                        Bound::NotAKnot => BoundaryCondition::NotAKnot,
                        Bound::Natural => BoundaryCondition::Natural,
                        Bound::Clamped => BoundaryCondition::Clamped,
                        Bound::Periodic => BoundaryCondition::Periodic,
                        Bound::Individual(a) => BoundaryCondition::Individual(a.mapv(|r| r.to_crate())),
                    }
                };
                let Strat1::Spline { boundary, extrapolate } = &spec.strat else { unreachable!() };
                let mk = || {
                    Interp1DBuilder::new(spec.data.clone())
                        .x(Array1::from(x.clone()))
                        .strategy(CubicSpline::new().extrapolate(*extrapolate).boundary(bc(boundary)))
                        .build()
                        .unwrap()
                };
                let shared = mk();
                let run = |op: &Op| exec1(&shared, op);
                let dig = || format!("{:?}", shared);
                let sc = Scenario { name, fresh: Box::new(|op| exec1(&mk(), op)), shared: &run, digest: &dig };
                run_scenario(&sc, &ops, &mut rng, &mut ev, case, &mut sigs, max_threads, perms, hammer_iters);
            }
            // Bilinear over owned storage, Ix3
            2 => {
                let (nx, ny) = (3 + rng.below(5), 3 + rng.below(4));
                let x: Vec<f64> = gen_axis(&mut rng, nx, AxisClass::FullMantissa, &AxisOpts::linear());
                let y: Vec<f64> = gen_axis(&mut rng, ny, AxisClass::DyadicRandom, &AxisOpts::linear());
                let data: ArrayD<f64> = gen_data(&mut rng, &[nx, ny, 2], DataClass::FullMantissa, (0, 0));
                let d3 = data.clone().into_dimensionality::<vh::ndarray::Ix3>().unwrap();
                let extr = case % 8 == 2;
                let mk = || {
                    Interp2DBuilder::new(d3.clone())
                        .x(Array1::from(x.clone()))
                        .y(Array1::from(y.clone()))
                        .strategy(Bilinear::new().extrapolate(extr))
                        .build()
                        .unwrap()
                };
                let shared = mk();
                let (y0, y1, x0, x1) = (y[0], y[ny - 1], x[0], x[nx - 1]);
                let ymap = move |q: f64| -> f64 {
                    // maps the x query to a y query: in range iff x in range (NaN stays NaN)
                    y0 + (y1 - y0) * ((q - x0) / (x1 - x0))
                };
                let mut ops = gen_history(&mut rng, &x, &[2], hist_len, extr);
                inject_pair_patterns(&mut rng, &mut ops, &x, &y, false);
                ev.add("repair_and_retry_patterns", (hist_len / 12).max(2) as u64);
                let run = |op: &Op| exec2(&shared, op, &ymap);
                let dig = || format!("{:?}", shared);
                let sc = Scenario { name: "Interp2D<owned, Ix3, Bilinear>".into(), fresh: Box::new(|op| exec2(&mk(), op, &ymap)), shared: &run, digest: &dig };
                ev.case(hash_bits(&[&bits_of(&x), &bits_of(&y)], &["bil"]), true);
                ev.count("scenario", &sc.name);
                run_scenario(&sc, &ops, &mut rng, &mut ev, case, &mut sigs, max_threads, perms, hammer_iters);
            }
            // periodic spline with extrapolation over shared (ArcArray) storage, dynamic dimension
            _ => {
                let n = 4 + rng.below(7);
                let x: Vec<f64> = gen_axis(&mut rng, n, AxisClass::DyadicRandom, &AxisOpts::spline());
                let mut data: ArrayD<f64> = gen_data(&mut rng, &[n, 2], DataClass::Smooth, (0, 0));
                let first = data.index_axis(Axis(0), 0).to_owned();
                data.index_axis_mut(Axis(0), n - 1).assign(&first);
                let mk = || {
                    Interp1DBuilder::new(data.clone().into_shared())
                        .x(Array1::from(x.clone()).into_shared())
                        .strategy(CubicSpline::new().extrapolate(true).boundary(BoundaryCondition::Periodic))
                        .build()
                        .unwrap()
                };
                let shared = mk();
                let ops = gen_history(&mut rng, &x, &[2], hist_len, true);
                let run = |op: &Op| exec1(&shared, op);
                let dig = || format!("{:?}", shared);
                let sc = Scenario { name: "Interp1D<shared, IxDyn, CubicSpline periodic+extrapolate>".into(), fresh: Box::new(|op| exec1(&mk(), op)), shared: &run, digest: &dig };
                ev.case(hash_bits(&[&bits_of(&x), &bits_of_arr(&data)], &["per"]), true);
                ev.count("scenario", &sc.name);
                run_scenario(&sc, &ops, &mut rng, &mut ev, case, &mut sigs, max_threads, perms, hammer_iters);
            }
        }
    }
    if args.blocks() {
        endurance(&mut ev, args.seed, if cfg!(miri) { 2_000 } else if args.leg != "native" { 1 << 21 } else if args.thorough() { 1 << 27 } else { 1 << 23 });
    }
    ev.add("distinct_interleavings_with_overlap", sigs.len() as u64);
    ev.add("history_length", hist_len as u64);
    ev.samples.push(
        J::obj()
            .set("history_example", J::arr(gen_history(&mut Rng::derive(args.seed, "C17", &[0]), &[0.0, 1.0, 2.5], &[3], 8, false).iter().map(|o| format!("{:?}", o)).collect::<Vec<_>>())),
    );
    ev.finish(
        &args,
        "per case one interpolator (Linear Ix2 / CubicSpline with random boundaries / Bilinear Ix3 / \
         periodic extrapolating spline over ArcArray IxDyn) and a random history of the stated length \
         mixing interp, interp_scalar, interp_into (30% wrong-shaped buffers -> caught panic), \
         interp_array / interp_array_into (Ix0, Ix1, Ix2, dynamic), index_point, get_index_left_of, \
         is_in_range with in-range, edge, out-of-range and NaN queries; reference = each operation on a \
         fresh interpolator; replayed in order, in random permutations and split over 2,3,4,8,16 threads. \
         Every case is non-trivial; distinct by input hash. Send + Sync: compile-time assertion.",
        J::obj(),
    );
}
