//! instantiations of the interpolator zoo: linear / f64 (see vh-core::dynapi)
vh_core::def_with1!(with, f64, linear, [oo lean] [all lean] [oo lean] [oo lean] [oo lean] [oo lean] [all lean]);
