//! C05 - without extrapolation a query is answered iff it lies in the closed axis range.
//! In-process monitor: the oracle is the closed-range predicate on the harness's own copy
//! of the axis; every strategy x every entry point x edge queries; one bad element at
//! every position of a batch.

use vh::cases::*;
use vh::events::*;
use vh::gen::*;
use vh::ndarray::{ArrayD, IxDyn};
use vh::report::*;
use vh::spec::*;
use vh::*;

#[derive(Clone, Copy, Debug)]
struct Q<T> {
    v: T,
    class: &'static str,
}

fn edge_queries<T: Flt>(rng: &mut Rng, x: &[T]) -> Vec<Q<T>> {
    let lo = x[0];
    let hi = x[x.len() - 1];
    let span = hi - lo;
    let mut v = vec![
        Q { v: lo, class: "first" },
        Q { v: hi, class: "last" },
        Q { v: lo.down(), class: "below-first-1ulp" },
        Q { v: hi.up(), class: "above-last-1ulp" },
        Q { v: lo.up(), class: "inside-first-1ulp" },
        Q { v: hi.down(), class: "inside-last-1ulp" },
        Q { v: lo.down().down(), class: "below-first-2ulp" },
        Q { v: hi.up().up(), class: "above-last-2ulp" },
        Q { v: T::infinity(), class: "+inf" },
        Q { v: T::neg_infinity(), class: "-inf" },
        Q { v: T::nan(), class: "NaN" },
        Q { v: -T::nan(), class: "NaN" },
        Q { v: lo - span * T::of(1000.0), class: "far-below" },
        Q { v: hi + span * T::of(1000.0), class: "far-above" },
        Q { v: T::max_value(), class: "+MAX" },
        Q { v: -T::max_value(), class: "-MAX" },
    ];
    for _ in 0..4 {
        v.push(Q { v: rand_in(rng, lo, hi), class: "inside" });
    }
    if x.len() > 2 {
        v.push(Q { v: x[1 + rng.below(x.len() - 2)], class: "interior-knot" });
    }
    v
}

fn in_range<T: Flt>(x: &[T], q: T) -> bool {
    // written on purpose differently from the crate: NaN fails both comparisons
    !(q < x[0]) && !(q > x[x.len() - 1]) && q == q
}

fn classify<V>(o: &Outcome<V>) -> &'static str {
    match o {
        Outcome::Ok(_) => "ok",
        Outcome::Err(k, _) if k == "OutOfBounds" => "oob",
        Outcome::Err(..) => "other-error",
        Outcome::Panic(_) => "panic",
        Outcome::Untypeable => "untypeable",
    }
}

struct Mon<'a> {
    ev: &'a mut Ev,
    case: u64,
    strat: String,
    replay: J,
}

impl Mon<'_> {
    /// compare the observed outcome class with the expected one
    fn expect<V>(&mut self, entry: &str, what: &str, o: &Outcome<V>, should_accept: bool, nontrivial_class: &str) {
        let got = classify(o);
        if got == "untypeable" {
            return;
        }
        self.ev.add("calls", 1);
        self.ev.count(
            "observed",
            format!("{}|{}|{}", self.strat, entry, if should_accept { "accepted" } else { "rejected" }),
        );
        self.ev.count("query_class", nontrivial_class);
        let want = if should_accept { "ok" } else { "oob" };
        if got != want {
            let sig = match (should_accept, got) {
                (true, "oob") => "C05:in-range-rejected",
                (false, "ok") => "C05:out-of-range-answered",
                (_, "panic") => "C05:panic",
                _ => "C05:wrong-error-kind",
            };
            self.ev.violation(
                sig,
                &format!(
                    "{} {} via {}: expected {}, got {}",
                    self.strat,
                    what,
                    entry,
                    want,
                    o.detail()
                ),
                self.case,
                self.replay.clone().set("entry", entry).set("query", what),
            );
        }
    }
}

fn batch_shapes(rng: &mut Rng) -> Vec<(QKind, Vec<usize>)> {
    vec![
        (QKind::S0, vec![]),
        (QKind::S1, vec![1 + rng.below(5)]),
        (QKind::S2, vec![2, 3]),
        (QKind::S3, vec![2, 1, 2]),
        (QKind::Dyn, vec![3]),
        (QKind::Dyn, vec![2, 2]),
        (QKind::Dyn, vec![]),
    ]
}

fn case1<T: Elem>(case: u64, which: u64, args: &Args, ev: &mut Ev) {
    let mut rng = Rng::derive(args.seed, "C05", &[case]);
    let (spec, _lab) = if which == 0 {
        gen_linear_case::<T>(&mut rng, &LinearOpts { max_n: 12, max_lane_rank: 2, allow_zero_lanes: true, ..Default::default() })
    } else {
        let mut o = SplineOpts { max_n: 12, max_lane_rank: 2, allow_zero_lanes: true, ..Default::default() };
        // walk through the boundary families: whole-set ones, Periodic, mixed pairs
        if case % 3 == 0 {
            o.force_pair = Some(sb_pair_index((case / 3) as usize));
        }
        gen_spline_case::<T>(&mut rng, &o)
    };
    let x = spec.axis();
    let strat = match &spec.strat {
        Strat1::Linear { .. } => "Linear".to_string(),
        Strat1::Spline { boundary, .. } => format!("Spline/{}", boundary.name()),
        _ => unreachable!(),
    };
    let qs = edge_queries(&mut rng, &x);
    let lane_shape = spec.lane_shape();
    let h = hash_bits(&[&bits_of(&x), &bits_of_arr(&spec.data)], &[T::NAME, &strat, &spec.dim_name()]);
    ev.case(h, true);
    ev.count("strategy", &strat);
    ev.count("elem", T::NAME);
    ev.count("dim", spec.dim_name());
    let replay = spec1_json(&spec);
    build1(&spec, |r| {
        let Ok(interp) = r else {
            ev.violation("C05:build-failed", "valid data set rejected", case, replay.clone());
            return;
        };
        ev.sample(|| {
            J::obj()
                .set("case", case)
                .set("strategy", strat.as_str())
                .set("axis_first", x[0].f())
                .set("axis_last", x[x.len() - 1].f())
                .set("queries", J::arr(qs.iter().map(|q| J::obj().set("q", format!("{:?}", q.v)).set("class", q.class).set("expected", if in_range(&x, q.v) { "answered" } else { "OutOfBounds" })).collect::<Vec<_>>()))
        });
        let mut mon = Mon { ev, case, strat: strat.clone(), replay: replay.clone() };
        // single-query entry points
        for q in &qs {
            let acc = in_range(&x, q.v);
            let what = format!("q={:?} ({})", q.v, q.class);
            mon.expect("interp", &what, &interp.one(q.v), acc, q.class);
            mon.expect("interp_scalar", &what, &interp.scalar(q.v), acc, q.class);
            let mut buf = ArrayD::<T>::zeros(IxDyn(&lane_shape));
            mon.expect("interp_into", &what, &interp.one_into(q.v, buf.view_mut()), acc, q.class);
        }
        // batches: all good, and exactly one bad element at every position
        let good: Vec<T> = qs.iter().filter(|q| in_range(&x, q.v)).map(|q| q.v).collect();
        let bad: Vec<Q<T>> = qs.iter().filter(|q| !in_range(&x, q.v)).copied().collect();
        for (kind, shape) in batch_shapes(&mut rng) {
            let n: usize = shape.iter().product();
            let vals: Vec<T> = (0..n).map(|i| good[i % good.len()]).collect();
            let mut out_shape = shape.clone();
            out_shape.extend(&lane_shape);
            let name = format!("interp_array[{}]", kind.name());
            let name_into = format!("interp_array_into[{}]", kind.name());
            let qa = Query::from_vec(vals.clone(), &shape, kind);
            mon.expect(&name, &format!("all-good batch {:?}", shape), &interp.many(&qa), true, "batch-all-good");
            let mut buf = ArrayD::<T>::zeros(IxDyn(&out_shape));
            mon.expect(&name_into, &format!("all-good batch {:?}", shape), &interp.many_into(&qa, buf.view_mut()), true, "batch-all-good");
            for pos in 0..n {
                let b = bad[(pos + case as usize) % bad.len()];
                let mut v2 = vals.clone();
                v2[pos] = b.v;
                let qa = Query::from_vec(v2, &shape, kind);
                let what = format!("batch {:?} with {:?} ({}) at position {}", shape, b.v, b.class, pos);
                mon.expect(&name, &what, &interp.many(&qa), false, "batch-one-bad");
                let mut buf = ArrayD::<T>::zeros(IxDyn(&out_shape));
                mon.expect(&name_into, &what, &interp.many_into(&qa, buf.view_mut()), false, "batch-one-bad");
            }
        }
        // large batches (hundreds to thousands of queries): one bad element at the first, a middle
        // and each of the last 9 positions; sizes around powers of two and not multiples of 8
        if case % 4 == 0 && spec.n_lanes() <= 4 {
            let sizes = [255usize, 256, 257, 1000, 1001, 1023, 1025, 4097, 5003];
            let size = sizes[(case / 4) as usize % sizes.len()];
            for (kind, shape) in [(QKind::S1, vec![size]), (QKind::Dyn, vec![size]), (QKind::S2, vec![size / 7, 7])] {
                let n: usize = shape.iter().product();
                let vals: Vec<T> = (0..n).map(|i| good[i % good.len()]).collect();
                let qa = Query::from_vec(vals.clone(), &shape, kind);
                let name = format!("interp_array[{}] large", kind.name());
                mon.expect(&name, &format!("all-good batch of {n}"), &interp.many(&qa), true, "large-batch-all-good");
                let mut positions: Vec<usize> = vec![0, n / 2];
                positions.extend(n.saturating_sub(9)..n);
                for pos in positions {
                    let b = bad[(pos + case as usize) % bad.len()];
                    if b.v != b.v {
                        continue; // NaN is covered by the small batches
                    }
                    let mut v2 = vals.clone();
                    v2[pos] = b.v;
                    let qa = Query::from_vec(v2, &shape, kind);
                    let what = format!("batch of {n} ({:?}) with {:?} ({}) at position {}", shape, b.v, b.class, pos);
                    mon.expect(&name, &what, &interp.many(&qa), false, "large-batch-one-bad");
                }
            }
        }
    });
}

fn case2<T: Elem>(case: u64, args: &Args, ev: &mut Ev) {
    let mut rng = Rng::derive(args.seed, "C05", &[case]);
    let (spec, _lab) = gen_grid_case::<T>(&mut rng, &GridOpts { max_nx: 7, max_ny: 5, max_lane_rank: 2, allow_zero_lanes: true, ..Default::default() });
    let x = spec.axis_x();
    let y = spec.axis_y();
    let strat = "Bilinear".to_string();
    let qx = edge_queries(&mut rng, &x);
    let qy = edge_queries(&mut rng, &y);
    let lane_shape = spec.lane_shape();
    let h = hash_bits(&[&bits_of(&x), &bits_of(&y), &bits_of_arr(&spec.data)], &[T::NAME, &spec.dim_name()]);
    ev.case(h, true);
    ev.count("strategy", &strat);
    ev.count("elem", T::NAME);
    ev.count("dim", spec.dim_name());
    let replay = spec2_json(&spec);
    build2(&spec, |r| {
        let Ok(interp) = r else {
            ev.violation("C05:build-failed", "valid grid rejected", case, replay.clone());
            return;
        };
        let mut mon = Mon { ev, case, strat: strat.clone(), replay: replay.clone() };
        let goodx: Vec<T> = qx.iter().filter(|q| in_range(&x, q.v)).map(|q| q.v).collect();
        let goody: Vec<T> = qy.iter().filter(|q| in_range(&y, q.v)).map(|q| q.v).collect();
        // every x class against a good y, every y class against a good x, and bad/bad pairs
        let mut pairs: Vec<(T, T, String)> = Vec::new();
        for (k, q) in qx.iter().enumerate() {
            pairs.push((q.v, goody[k % goody.len()], format!("x:{}", q.class)));
        }
        for (k, q) in qy.iter().enumerate() {
            pairs.push((goodx[k % goodx.len()], q.v, format!("y:{}", q.class)));
        }
        for k in 0..qx.len().min(qy.len()) {
            pairs.push((qx[k].v, qy[(k * 7 + 3) % qy.len()].v, format!("xy:{}+{}", qx[k].class, qy[(k * 7 + 3) % qy.len()].class)));
        }
        for (a, b, cl) in &pairs {
            let acc = in_range(&x, *a) && in_range(&y, *b);
            let what = format!("q=({:?},{:?}) [{}]", a, b, cl);
            let clz = if acc { "2d-accept" } else if in_range(&x, *a) { "2d-y-out" } else if in_range(&y, *b) { "2d-x-out" } else { "2d-both-out" };
            mon.expect("interp", &what, &interp.one(*a, *b), acc, clz);
            mon.expect("interp_scalar", &what, &interp.scalar(*a, *b), acc, clz);
            let mut buf = ArrayD::<T>::zeros(IxDyn(&lane_shape));
            mon.expect("interp_into", &what, &interp.one_into(*a, *b, buf.view_mut()), acc, clz);
        }
        let bad: Vec<(T, T)> = pairs
            .iter()
            .filter(|(a, b, _)| !(in_range(&x, *a) && in_range(&y, *b)))
            .map(|(a, b, _)| (*a, *b))
            .collect();
        for (kind, shape) in batch_shapes(&mut rng) {
            let n: usize = shape.iter().product();
            let vx: Vec<T> = (0..n).map(|i| goodx[i % goodx.len()]).collect();
            let vy: Vec<T> = (0..n).map(|i| goody[(i * 3 + 1) % goody.len()]).collect();
            let mut out_shape = shape.clone();
            out_shape.extend(&lane_shape);
            let name = format!("interp_array[{}]", kind.name());
            let name_into = format!("interp_array_into[{}]", kind.name());
            let qax = Query::from_vec(vx.clone(), &shape, kind);
            let qay = Query::from_vec(vy.clone(), &shape, kind);
            mon.expect(&name, "all-good batch", &interp.many(&qax, &qay), true, "batch-all-good");
            let mut buf = ArrayD::<T>::zeros(IxDyn(&out_shape));
            mon.expect(&name_into, "all-good batch", &interp.many_into(&qax, &qay, buf.view_mut()), true, "batch-all-good");
            for pos in 0..n {
                let (bx, by) = bad[(pos * 5 + case as usize) % bad.len()];
                let mut wx = vx.clone();
                let mut wy = vy.clone();
                wx[pos] = bx;
                wy[pos] = by;
                let qax = Query::from_vec(wx, &shape, kind);
                let qay = Query::from_vec(wy, &shape, kind);
                let what = format!("batch {:?} with ({:?},{:?}) at position {}", shape, bx, by, pos);
                mon.expect(&name, &what, &interp.many(&qax, &qay), false, "batch-one-bad");
                let mut buf = ArrayD::<T>::zeros(IxDyn(&out_shape));
                mon.expect(&name_into, &what, &interp.many_into(&qax, &qay, buf.view_mut()), false, "batch-one-bad");
            }
        }
    });
}

/// Queries that share their buffer with the interpolator's axis: views of one grid that start
/// at the same element as the axis view but differ in stride, direction or length. Whether a
/// batch is answered depends on the query *values* only.
fn aliased_queries(ev: &mut Ev) {
    use vh::ndarray::{s, Array1, Array2, ArrayView1};
    use vh::ndarray_interp::interp1d::cubic_spline::CubicSpline;
    use vh::ndarray_interp::interp1d::{Interp1D, Linear};
    use vh::ndarray_interp::interp2d::Interp2D;
    let mut rng = Rng::derive(5, "C05-aliased-queries", &[0]);
    let mut id = 8_000_000u64;
    for round in 0..60u64 {
        let n = 3 + rng.below(6);
        let mut pos = rng.irange(-10, 10) as f64 * 0.5;
        let g: Array1<f64> = (0..2 * n)
            .map(|_| {
                let v = pos;
                pos += 0.25 * (1 + rng.below(5)) as f64;
                v
            })
            .collect();
        let data: Array2<f64> = Array2::from_shape_fn((n, 2), |_| rng.f01() * 10.0 - 5.0);
        let gs = g.clone().into_shared();
        // (name, axis view, query view)
        let cases: Vec<(&str, ArrayView1<f64>, ArrayView1<f64>)> = vec![
            ("axis g[..n], query g[..;2] (same start and length, stride 2)", g.slice(s![..n]), g.slice(s![..2 * n - 1;2])),
            ("axis g[n-1..2n-1], query g[..n] reversed (same start element)", g.slice(s![n - 1..2 * n - 1]), g.slice(s![..n;-1])),
            ("axis g[..n], query = the same view", g.slice(s![..n]), g.slice(s![..n])),
            ("axis g[..n], query g[..n+1] (one element longer)", g.slice(s![..n]), g.slice(s![..n + 1])),
            ("axis g[..n], query g[..n-1] (one element shorter)", g.slice(s![..n]), g.slice(s![..n - 1])),
            ("axis g[1..n+1], query g[..n] (starts one element earlier)", g.slice(s![1..n + 1]), g.slice(s![..n])),
            ("axis g[..n] (shared storage), query view of the same buffer with stride 2", gs.slice(s![..n]), gs.slice(s![..2 * n - 1;2])),
        ];
        for (name, axis, query) in cases {
            id += 1;
            let (lo, hi) = (axis[0], axis[n - 1]);
            let all_in = query.iter().all(|&q| q >= lo && q <= hi);
            macro_rules! probe {
                ($label:expr, $interp:expr) => {{
                    let interp = $interp;
                    let r = vh::outcome::guard(|| interp.interp_array(&query).map(|a| a.iter().map(|v| v.to_bits()).collect::<Vec<u64>>()).map_err(|e| if matches!(e, vh::ndarray_interp::InterpolateError::OutOfBounds(_)) { "OutOfBounds".to_string() } else { format!("other error: {e}") }));
                    ev.add("aliased_query_batches", 1);
                    ev.count("aliased_query_expected", if all_in { "answered" } else { "rejected" });
                    let per_element: Vec<u64> = if all_in {
                        query.iter().flat_map(|&q| interp.interp(q).unwrap().iter().map(|v| v.to_bits()).collect::<Vec<_>>()).collect()
                    } else {
                        Vec::new()
                    };
                    let ok = match &r {
                        Ok(Ok(bits)) => all_in && *bits == per_element,
                        Ok(Err(m)) => !all_in && m == "OutOfBounds",
                        Err(_) => false,
                    };
                    if !ok {
                        ev.violation(
                            if all_in { "C05:in-range-query-mishandled" } else { "C05:out-of-range-accepted" },
                            &format!(
                                "{} {name} (n={n}): axis {:?}, query {:?} -> {:?}; expected {}",
                                $label,
                                axis.to_vec(),
                                query.to_vec(),
                                r.as_ref().map(|x| x.as_ref().map(|b| b.iter().map(|u| f64::from_bits(*u)).collect::<Vec<_>>())),
                                if all_in { "the per-element results" } else { "Err(OutOfBounds)" }
                            ),
                            id,
                            J::obj().set("round", round).set("variant", name),
                        );
                    }
                }};
            }
            match round % 3 {
                0 => probe!("Linear", Interp1D::builder(data.view()).x(axis).strategy(Linear::new()).build().unwrap()),
                1 => probe!("CubicSpline", Interp1D::builder(data.view()).x(axis).strategy(CubicSpline::new()).build().unwrap()),
                _ => probe!("Linear (new_unchecked)", Interp1D::new_unchecked(axis, data.view(), Linear::new())),
            }
            // 2-D: the x queries alias the x axis, the y queries are in range
            let grid: Array2<f64> = Array2::from_shape_fn((n, 3), |_| rng.f01());
            let yax: Array1<f64> = Array1::from(vec![0.0, 1.0, 2.5]);
            let b = Interp2D::builder(grid.view()).x(axis).y(yax.view()).build().unwrap();
            let qy: Array1<f64> = (0..query.len()).map(|_| rng.f01() * 2.5).collect();
            let r = vh::outcome::guard(|| b.interp_array(&query, &qy).map(|a| a.iter().map(|v| v.to_bits()).collect::<Vec<u64>>()).map_err(|e| if matches!(e, vh::ndarray_interp::InterpolateError::OutOfBounds(_)) { "OutOfBounds".to_string() } else { format!("other error: {e}") }));
            ev.add("aliased_query_batches", 1);
            let ok = match &r {
                Ok(Ok(bits)) => all_in && *bits == query.iter().zip(qy.iter()).map(|(&a, &c)| b.interp_scalar(a, c).unwrap().to_bits()).collect::<Vec<_>>(),
                Ok(Err(m)) => !all_in && m == "OutOfBounds",
                Err(_) => false,
            };
            if !ok {
                ev.violation(
                    if all_in { "C05:in-range-query-mishandled" } else { "C05:out-of-range-accepted" },
                    &format!("Bilinear {name} (n={n}): x axis {:?}, xs {:?} -> {:?}", axis.to_vec(), query.to_vec(), r.as_ref().map(|x| x.as_ref().map(|b| b.len()))),
                    id,
                    J::obj().set("round", round).set("variant", name),
                );
            }
        }
    }
}

/// Axes whose span is not representable: sentinel knots at +-MAX, an open-ended last (or first)
/// knot at +-inf. Only the accept / reject decision is judged here: a query is answered iff it
/// lies in the closed range (values next to an infinite knot are not numbers one could check).
fn overflowing_spans(ev: &mut Ev) {
    use vh::ndarray::{Array1, Array2};
    use vh::ndarray_interp::interp1d::{Interp1D, Linear};
    use vh::ndarray_interp::interp2d::Interp2D;
    let m = f64::MAX;
    let inf = f64::INFINITY;
    let axes: Vec<Vec<f64>> = vec![
        vec![-m, -1.0, 0.5, 3.0, m],
        vec![-m, 0.0, m],
        vec![0.0, 1.0, 2.0, inf],
        vec![-inf, -2.0, 0.0, 4.0],
        vec![-inf, 0.0, inf],
        vec![-m, m],
        vec![-1.0e308, 1.0e308, 1.5e308],
        vec![0.0, 1.0, 2.0, 3.0],
    ];
    let mut id = 8_500_000u64;
    for ax in &axes {
        let n = ax.len();
        let (lo, hi) = (ax[0], ax[n - 1]);
        let mut qs: Vec<f64> = ax.clone();
        for w in ax.windows(2) {
            let mid = w[0] / 2.0 + w[1] / 2.0;
            if mid.is_finite() {
                qs.push(mid);
            }
        }
        qs.extend([0.25, -0.25, 1.0e300, -1.0e300, m, -m, inf, -inf, f64::NAN]);
        let x = Array1::from(ax.clone());
        let d1 = Array1::from((0..n).map(|i| i as f64).collect::<Vec<_>>());
        let lin = Interp1D::builder(d1.clone()).x(x.clone()).strategy(Linear::new()).build().unwrap();
        let y = Array1::from(vec![0.0, 1.0, 2.0]);
        let g = Array2::from_shape_fn((n, 3), |(i, j)| (i + j) as f64);
        let bx = Interp2D::builder(g.clone()).x(x.clone()).y(y.clone()).build().unwrap();
        let by = Interp2D::builder(g.t().to_owned()).x(y.clone()).y(x.clone()).build().unwrap();
        for &q in &qs {
            id += 1;
            let inside = q >= lo && q <= hi;
            let mut judge = |what: &str, answered: Result<bool, String>, ev: &mut Ev| {
                ev.add("overflowing_span_queries", 1);
                if answered != Ok(inside) {
                    ev.violation(
                        if inside { "C05:in-range-query-rejected" } else { "C05:out-of-range-accepted" },
                        &format!("{what}, axis {ax:?}, q={q:?}: answered = {answered:?}, q in the closed range = {inside}"),
                        id,
                        J::obj().set("axis", format!("{ax:?}")).set("q", format!("{q:?}")),
                    );
                }
            };
            judge("Linear interp_scalar", vh::outcome::guard(|| lin.interp_scalar(q).is_ok()), ev);
            judge("Linear is_in_range", vh::outcome::guard(|| lin.is_in_range(q)), ev);
            judge("Linear interp_array", vh::outcome::guard(|| lin.interp_array(&Array1::from(vec![q, q])).is_ok()), ev);
            judge("Bilinear (x axis) interp_scalar", vh::outcome::guard(|| bx.interp_scalar(q, 1.5).is_ok()), ev);
            judge("Bilinear is_in_x_range", vh::outcome::guard(|| bx.is_in_x_range(q)), ev);
            judge("Bilinear (y axis) interp_scalar", vh::outcome::guard(|| by.interp_scalar(0.5, q).is_ok()), ev);
            judge("Bilinear is_in_y_range", vh::outcome::guard(|| by.is_in_y_range(q)), ev);
            judge("Bilinear (y axis) interp_array", vh::outcome::guard(|| by.interp_array(&Array1::from(vec![0.5, 2.0]), &Array1::from(vec![q, q])).is_ok()), ev);
        }
    }
}

/// integer element types (i32 / i64, axis values beyond 2^53): the accept / reject decision is
/// made on the element type's own order, whatever the magnitude
fn integer_axes(ev: &mut Ev) {
    use vh::ndarray::{Array1, Array2};
    use vh::ndarray_interp::interp1d::{Interp1D, Linear};
    use vh::ndarray_interp::interp2d::Interp2D;
    let mut rng = Rng::derive(5, "C05-integer-axes", &[0]);
    let mut id = 8_700_000u64;
    macro_rules! run {
        ($t:ty, $name:expr, $bases:expr, $steps:expr) => {{
            for &base in $bases.iter() {
                for &step in $steps.iter() {
                    let n = 3 + rng.below(5);
                    let ax: Vec<$t> = (0..n).map(|i| base + step * i as $t).collect();
                    let (lo, hi) = (ax[0], ax[n - 1]);
                    let x = Array1::from(ax.clone());
                    let d1 = Array1::from((0..n).map(|i| (i as $t) * 10).collect::<Vec<$t>>());
                    let lin = Interp1D::builder(d1).x(x.clone()).strategy(Linear::new()).build().unwrap();
                    let y = Array1::from(vec![0 as $t, 10, 20]);
                    let g = Array2::from_shape_fn((n, 3), |(i, j)| (i * 3 + j) as $t);
                    let bx = Interp2D::builder(g.clone()).x(x.clone()).y(y.clone()).build().unwrap();
                    let by = Interp2D::builder(g.t().to_owned()).x(y.clone()).y(x.clone()).build().unwrap();
                    let mut qs: Vec<$t> = vec![lo, hi, lo + 1, hi - 1, lo + step / 2, ax[1], ax[n - 2]];
                    for d in [1 as $t, 2, 3, 100, 255, 256, 1000] {
                        if let Some(v) = hi.checked_add(d) {
                            qs.push(v);
                        }
                        if let Some(v) = lo.checked_sub(d) {
                            qs.push(v);
                        }
                    }
                    for &q in &qs {
                        id += 1;
                        let inside = q >= lo && q <= hi;
                        let mut judge = |what: &str, answered: Result<bool, String>, ev: &mut Ev| {
                            ev.add("integer_axis_queries", 1);
                            if answered != Ok(inside) {
                                ev.violation(
                                    if inside { "C05:in-range-query-rejected" } else { "C05:out-of-range-accepted" },
                                    &format!("{} {what}, axis {ax:?}, q={q}: answered = {answered:?}, q in the closed range = {inside}", $name),
                                    id,
                                    J::obj().set("elem", $name).set("q", format!("{q}")),
                                );
                            }
                        };
                        judge("Linear interp_scalar", vh::outcome::guard(|| lin.interp_scalar(q).is_ok()), ev);
                        judge("Linear is_in_range", vh::outcome::guard(|| lin.is_in_range(q)), ev);
                        judge("Linear interp_array", vh::outcome::guard(|| lin.interp_array(&Array1::from(vec![ax[1], q])).is_ok()), ev);
                        judge("Bilinear (x axis) interp_scalar", vh::outcome::guard(|| bx.interp_scalar(q, 5).is_ok()), ev);
                        judge("Bilinear is_in_x_range", vh::outcome::guard(|| bx.is_in_x_range(q)), ev);
                        judge("Bilinear (y axis) interp_scalar", vh::outcome::guard(|| by.interp_scalar(10, q).is_ok()), ev);
                        judge("Bilinear is_in_y_range", vh::outcome::guard(|| by.is_in_y_range(q)), ev);
                        judge("Bilinear (y axis) interp_array", vh::outcome::guard(|| by.interp_array(&Array1::from(vec![0 as $t, 20]), &Array1::from(vec![ax[0], q])).is_ok()), ev);
                    }
                }
            }
        }};
    }
    run!(i64, "i64", [0i64, -50, 1_700_000_000_000_000_000, -(1i64 << 60), (1i64 << 53) - 7, i64::MIN + 2000, i64::MAX - 100_000], [1i64, 7, 100, 1000]);
    run!(i32, "i32", [0i32, -50, 2_000_000_000, i32::MIN + 2000, 16_777_216], [1i32, 7, 100, 1000]);
}

fn main() {
    let args = Args::parse("C05");
    let n = args.budget(300, 30000);
    let ev = run_sharded(&args, n, |case, ev, _log| {
        let f32_ = case % 5 == 4;
        match (case % 3, f32_) {
            (2, false) => case2::<f64>(case, &args, ev),
            (2, true) => case2::<f32>(case, &args, ev),
            (w, false) => case1::<f64>(case, w, &args, ev),
            (w, true) => case1::<f32>(case, w, &args, ev),
        }
    });
    // gate material: every (strategy family, entry point) must have been seen accepting and rejecting
    let mut fams: std::collections::BTreeMap<String, (bool, bool)> = Default::default();
    if let Some(h) = ev.hist.get("observed") {
        for k in h.keys() {
            let parts: Vec<&str> = k.split('|').collect();
            let fam = format!("{}|{}", parts[0].split('/').next().unwrap(), parts[1]);
            let e = fams.entry(fam).or_insert((false, false));
            if parts[2] == "accepted" {
                e.0 = true
            } else {
                e.1 = true
            }
        }
    }
    let both = fams.values().filter(|(a, r)| *a && *r).count();
    let mut ev = ev;
    if args.blocks() {
        aliased_queries(&mut ev);
        overflowing_spans(&mut ev);
        integer_axes(&mut ev);
    }
    ev.add("strategy_entry_pairs", fams.len() as u64);
    ev.add("strategy_entry_pairs_with_accept_and_reject", both as u64);
    ev.finish(
        &args,
        "every strategy (Linear, CubicSpline with whole-set / Periodic / all 25 mixed boundary pairs, \
         Bilinear) x every entry point (scalar, single, _into, array of rank 0..3 and dynamic, \
         _array_into) x queries {both ends, floats 1-2 ulps on either side, +-inf, NaN, +-MAX, far \
         outside, inside}; one bad element at every position of every batch shape. Every case is \
         non-trivial (contains the edge queries); distinct by hash of axis, data, strategy.",
        J::obj(),
    );
}
