//! C01 - Linear 1-D interpolation returns the exact piecewise-linear interpolant.
//! Driver: executes the real calls and logs them; the exact comparison is done by the
//! offline checker (oracle/check_log.py, model "interp1", check "line").

use vh::cases::*;
use vh::events::*;
use vh::gen::*;
use vh::report::*;
use vh::spec::*;
use vh::*;

fn run_case<T: Elem>(case: u64, args: &Args, ev: &mut Ev, log: &mut EventLog) {
    let mut rng = Rng::derive(args.seed, "C01", &[case]);
    // fixed case ids are reserved for long axes (hundreds to thousands of knots, every knot,
    // its neighbours and every midpoint queried)
    let force_n = if case % 50 == 17 { Some(*rng.pick(&[300usize, 700, 1025, 2049])) } else { None };
    let (spec, lab) = gen_linear_case::<T>(
        &mut rng,
        &LinearOpts {
            extreme_magnitudes: true,
            force_n,
            ..Default::default()
        },
    );
    let x = spec.axis();
    let q = queries_in_range(&mut rng, &x, 8);
    let entry = rng.below(4);
    let affine = data_is_affine(&x, &spec.data);
    let nontrivial = !lab.uniform || !affine;
    let h = hash_bits(
        &[&bits_of(&x), &bits_of_arr(&spec.data), &bits_of(&q)],
        &[T::NAME, &spec.dim_name()],
    );
    ev.case(h, nontrivial);
    ev.count("axis_class", &lab.axis);
    ev.count("data_class", &lab.data);
    ev.count("n_class", &lab.n_class);
    ev.count("elem", T::NAME);
    ev.count("dim", spec.dim_name());

    build1(&spec, |r| {
        let interp = match r {
            Ok(i) => i,
            Err(o) => {
                ev.violation(
                    "C01:build-failed",
                    &format!("valid linear data set rejected: {}", o.detail()),
                    case,
                    spec1_json(&spec),
                );
                return;
            }
        };
        let lanes = spec.n_lanes();
        let mut res: Vec<T> = Vec::with_capacity(q.len() * lanes);
        let mut used_q: Vec<T> = Vec::new();
        let entry_name;
        let mut fail: Option<String> = None;
        match entry {
            0 => {
                entry_name = "interp";
                for &qq in &q {
                    match interp.one(qq) {
                        Outcome::Ok(a) => {
                            used_q.push(qq);
                            res.extend(a.iter().copied());
                        }
                        o => fail = Some(format!("interp({:?}) -> {}", qq, o.detail())),
                    }
                }
            }
            1 if !spec.dynamic && spec.data.ndim() == 1 => {
                entry_name = "interp_scalar";
                for &qq in &q {
                    match interp.scalar(qq) {
                        Outcome::Ok(v) => {
                            used_q.push(qq);
                            res.push(v);
                        }
                        o => fail = Some(format!("interp_scalar({:?}) -> {}", qq, o.detail())),
                    }
                }
            }
            _ => {
                entry_name = "interp_array";
                let kind = *rng.pick(&[QKind::S1, QKind::S1, QKind::S2, QKind::S3, QKind::Dyn]);
                let qa = make_query(&q, kind, &mut rng);
                match interp.many(&qa) {
                    Outcome::Ok(a) => {
                        used_q = qa.values().iter().copied().collect();
                        res.extend(a.iter().copied());
                    }
                    o => fail = Some(format!("interp_array({}) -> {}", qa.name(), o.detail())),
                }
            }
        }
        ev.count("entry", entry_name);
        if let Some(f) = fail {
            ev.violation(
                "C01:in-range-query-not-answered",
                &f,
                case,
                spec1_json(&spec),
            );
            return;
        }
        ev.add("queries", used_q.len() as u64);
        ev.add("values", res.len() as u64);
        let e = event1("C01", case, &spec, &used_q, &res, entry_name, &["line"]);
        ev.sample(|| {
            J::obj()
                .set("case", case)
                .set("axis_class", lab.axis.as_str())
                .set("spec", spec1_json(&spec))
                .set("entry", entry_name)
                .set("n_queries", used_q.len())
        });
        log.push(&e);
    });
}

/// The query is another view of the buffer that holds the axis: same first element and same
/// length as the axis view, different stride (a decimated series interpolated back onto its
/// first samples). The values are judged by the exact oracle like every other case.
fn aliased_case(case: u64, args: &Args, ev: &mut Ev, log: &mut EventLog) {
    use vh::ndarray::{s, Array1, Array2};
    use vh::ndarray_interp::interp1d::{Interp1D, Linear};
    let mut rng = Rng::derive(args.seed, "C01-aliased", &[case]);
    let n = 3 + rng.below(8);
    let (sa, sq) = *rng.pick(&[(2usize, 1usize), (3, 1), (3, 2)]);
    let mut pos = rng.irange(-40, 40) as f64 * 0.125;
    let t: Array1<f64> = (0..sa * n)
        .map(|_| {
            let v = pos;
            pos += 0.125 * (1 + rng.below(9)) as f64 + if rng.chance(0.5) { rng.f01() } else { 0.0 };
            v
        })
        .collect();
    let lanes = 1 + rng.below(2);
    let data: Array2<f64> = Array2::from_shape_fn((n, lanes), |_| rng.f01() * 64.0 - 32.0);
    let axis = t.slice(s![..sa * (n - 1) + 1;sa]);
    let query = t.slice(s![..sq * (n - 1) + 1;sq]);
    assert!(axis.len() == n && query.len() == n && std::ptr::eq(axis.as_ptr(), query.as_ptr()));
    let shared = case % 2 == 0;
    let res: Result<Vec<f64>, String> = vh::outcome::guard(|| {
        if shared {
            let ts = t.clone().into_shared();
            let i = Interp1D::builder(data.view()).x(ts.clone().slice_move(s![..sa * (n - 1) + 1;sa])).strategy(Linear::new()).build().unwrap();
            i.interp_array(&ts.slice(s![..sq * (n - 1) + 1;sq])).unwrap().iter().copied().collect()
        } else {
            let i = Interp1D::builder(data.view()).x(axis).strategy(Linear::new()).build().unwrap();
            i.interp_array(&query).unwrap().iter().copied().collect()
        }
    });
    let spec = Spec1::new(data.clone().into_dyn(), Some(axis.to_owned()), Strat1::Linear { extrapolate: false });
    ev.case(hash_bits(&[&bits_of(&t.to_vec())], &["aliased", &format!("{sa}/{sq}/{lanes}")]), true);
    ev.count("axis_class", "query-aliases-axis-buffer");
    ev.count("elem", "f64");
    ev.count("entry", "interp_array");
    match res {
        Err(p) => ev.violation("C01:in-range-query-not-answered", &format!("query view of the axis buffer (axis stride {sa}, query stride {sq}): {p}"), case, spec1_json(&spec)),
        Ok(r) => {
            let used: Vec<f64> = query.to_vec();
            ev.add("queries", used.len() as u64);
            ev.add("values", r.len() as u64);
            log.push(&event1("C01", case, &spec, &used, &r, "interp_array(query aliases the axis buffer)", &["line"]));
        }
    }
}

fn main() {
    let args = Args::parse("C01");
    let n = args.budget(1500, 200000);
    let ev = run_sharded(&args, n, |case, ev, log| {
        if case % 25 == 6 {
            aliased_case(case, &args, ev, log)
        } else if case % 4 == 3 {
            run_case::<f32>(case, &args, ev, log)
        } else {
            run_case::<f64>(case, &args, ev, log)
        }
    });
    ev.finish(
        &args,
        "random linear data sets (axis classes incl. ulp-clusters and default index axis, data \
         classes, f64/f32, Ix1..Ix4/IxDyn); queries = every knot, both neighbouring floats, \
         midpoints, random. Non-trivial = axis not uniform or data not affine (a wrong bracket \
         would otherwise be invisible); distinct by hash of axis, data and query bits.",
        J::obj(),
    );
}
