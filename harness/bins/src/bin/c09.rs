//! C09 - all query entry points agree; result shape = query shape ++ trailing data dims.
//! In-process: bitwise agreement of interp_array / interp / interp_scalar / *_into, the
//! shape law, and *placement* through a recording user strategy that writes f(x, lane)
//! into whatever target it is handed (a target handed out for the wrong query index or a
//! transposed lane layout shows up as a wrong code).

use vh::cases::*;
use vh::events::*;
use vh::gen::*;
use vh::ndarray::{Array1, ArrayD, IxDyn};
use vh::rec::{code1, code2, RecHandle};
use vh::report::*;
use vh::spec::*;
use vh::*;

fn distinct_queries<T: Flt>(rng: &mut Rng, lo: T, hi: T, n: usize) -> Vec<T> {
    let mut v: Vec<T> = Vec::with_capacity(n);
    let mut guard = 0;
    while v.len() < n && guard < 50 * n + 50 {
        guard += 1;
        let c = rand_in(rng, lo, hi);
        if !v.iter().any(|a| a.bits() == c.bits()) {
            v.push(c);
        }
    }
    while v.len() < n {
        v.push(lo);
    }
    v
}

/// the same, with about a third of the values replaced by (pairwise distinct) knots
fn distinct_queries_with_knots<T: Flt>(rng: &mut Rng, x: &[T], n: usize) -> Vec<T> {
    let mut v = distinct_queries(rng, x[0], x[x.len() - 1], n);
    let mut knots: Vec<T> = x.to_vec();
    rng.shuffle(&mut knots);
    let mut pos: Vec<usize> = (0..n).collect();
    rng.shuffle(&mut pos);
    for (&p, &k) in pos.iter().take((n + 2) / 3).zip(knots.iter()) {
        if !v.iter().any(|a| a.bits() == k.bits()) {
            v[p] = k;
        }
    }
    v
}

fn slices_same<T: Flt>(a: &[T], b: &[T]) -> bool {
    a.len() == b.len() && a.iter().zip(b).all(|(x, y)| vh::flt::same_bits(*x, *y))
}

/// query shapes: asymmetric, with pairwise distinct extents, zero-length axes, rank 0
fn query_shape(rng: &mut Rng, kind: QKind) -> Vec<usize> {
    let rank = kind.static_rank().unwrap_or_else(|| rng.below(4));
    let mut dims: Vec<usize> = vec![2, 3, 4, 1];
    rng.shuffle(&mut dims);
    let mut s: Vec<usize> = dims.into_iter().take(rank).collect();
    if rank > 0 && rng.chance(0.12) {
        let i = rng.below(rank);
        s[i] = 0;
    }
    s
}

fn kinds() -> [QKind; 6] {
    [QKind::S0, QKind::S1, QKind::S2, QKind::S3, QKind::S4, QKind::Dyn]
}

struct Ctx<'a> {
    ev: &'a mut Ev,
    case: u64,
    replay: J,
    failed: bool,
}

impl Ctx<'_> {
    fn bad(&mut self, sig: &str, msg: String) {
        if !self.failed {
            self.ev.violation(sig, &msg, self.case, self.replay.clone());
        }
        self.failed = true;
    }
}

fn check1<T: Elem>(c: &mut Ctx, interp: &dyn DynInterp1<T>, spec: &Spec1<T>, qa: &Query<T>, rng: &mut Rng) {
    let lane_shape = spec.lane_shape();
    let lanes: usize = lane_shape.iter().product();
    let qvals: Vec<T> = qa.values().iter().copied().collect();
    let mut want_shape = qa.shape().to_vec();
    want_shape.extend(&lane_shape);
    let name = qa.name();
    c.ev.count("query_kind", qa.kind.name());
    c.ev.count("query_rank", format!("{}", qa.shape().len()));
    if qvals.is_empty() {
        c.ev.add("empty_queries", 1);
    }
    if want_shape.len() > 6 {
        c.ev.add("combined_rank_above_6", 1);
    }
    let r = match interp.many(qa) {
        Outcome::Ok(r) => r,
        Outcome::Untypeable => return,
        o => {
            c.bad("C09:interp_array-failed", format!("interp_array({name}) -> {}", o.detail()));
            return;
        }
    };
    c.ev.add("array_calls", 1);
    if r.shape() != want_shape.as_slice() {
        c.bad("C09:result-shape", format!("interp_array({name}) has shape {:?}, expected {:?}", r.shape(), want_shape));
        return;
    }
    let flat: Vec<T> = r.iter().copied().collect();
    c.ev.sample(|| {
        J::obj()
            .set("case", c.case)
            .set("data_dim", spec.dim_name())
            .set("data_shape", J::arr(spec.data.shape().to_vec()))
            .set("strategy", spec.strat.name())
            .set("query", name.as_str())
            .set("result_shape", J::arr(r.shape().to_vec()))
    });
    // element-wise agreement with interp / interp_scalar / interp_into
    for (k, &q) in qvals.iter().enumerate() {
        let one = match interp.one(q) {
            Outcome::Ok(a) => a,
            o => {
                c.bad("C09:interp-failed", format!("interp({q:?}) -> {} although interp_array answered", o.detail()));
                return;
            }
        };
        if one.shape() != lane_shape.as_slice() {
            c.bad("C09:result-shape", format!("interp({q:?}) has shape {:?}, expected {:?}", one.shape(), lane_shape));
            return;
        }
        let one_flat: Vec<T> = one.iter().copied().collect();
        c.ev.add("elements_compared", lanes as u64);
        if !slices_same(&one_flat, &flat[k * lanes..(k + 1) * lanes]) {
            c.bad(
                "C09:array-vs-single",
                format!("interp_array({name}) at flat query index {k} (q={q:?}) = {:?} but interp(q) = {:?}", &flat[k * lanes..(k + 1) * lanes], one_flat),
            );
            return;
        }
        if let Outcome::Ok(s) = interp.scalar(q) {
            c.ev.add("scalar_compared", 1);
            if !vh::flt::same_bits(s, one_flat[0]) {
                c.bad("C09:scalar-vs-single", format!("interp_scalar({q:?}) = {s:?} but interp = {:?}", one_flat[0]));
                return;
            }
        }
        if k < 3 {
            let mut buf = ArrayD::<T>::from_elem(IxDyn(&lane_shape), T::sentinel(7));
            match interp.one_into(q, buf.view_mut()) {
                Outcome::Ok(()) => {
                    c.ev.add("into_compared", 1);
                    if !vh::flt::arr_bits_eq(&buf, &one) {
                        c.bad("C09:into-vs-allocating", format!("interp_into({q:?}) wrote {:?}, interp returned {:?}", buf, one));
                        return;
                    }
                }
                Outcome::Untypeable => {}
                o => {
                    c.bad("C09:interp_into-failed", format!("interp_into({q:?}) -> {}", o.detail()));
                    return;
                }
            }
        }
    }
    // interp_array_into into a buffer with a random layout
    let lay = vh::lay::Layout::random(rng, want_shape.len());
    let mut m = vh::lay::Mat::blank(&want_shape, &lay, |k| T::sentinel(k));
    match interp.many_into(qa, m.view_mut()) {
        Outcome::Ok(()) => {
            c.ev.add("array_into_compared", 1);
            c.ev.count("buffer_layout", lay.class());
            if !vh::flt::arr_bits_eq(&m.view(), &r.view()) {
                c.bad("C09:into-vs-allocating", format!("interp_array_into({name}) differs from interp_array (buffer layout {})", lay.class()));
            }
        }
        Outcome::Untypeable => {}
        o => c.bad("C09:interp_array_into-failed", format!("interp_array_into({name}, layout {}) -> {}", lay.class(), o.detail())),
    }
}

fn check2<T: Elem>(c: &mut Ctx, interp: &dyn DynInterp2<T>, spec: &Spec2<T>, qx: &Query<T>, qy: &Query<T>, rng: &mut Rng) {
    let lane_shape = spec.lane_shape();
    let lanes: usize = lane_shape.iter().product();
    let xv: Vec<T> = qx.values().iter().copied().collect();
    let yv: Vec<T> = qy.values().iter().copied().collect();
    let mut want_shape = qx.shape().to_vec();
    want_shape.extend(&lane_shape);
    let name = qx.name();
    c.ev.count("query_kind", qx.kind.name());
    c.ev.count("query_rank", format!("{}", qx.shape().len()));
    if xv.is_empty() {
        c.ev.add("empty_queries", 1);
    }
    if want_shape.len() > 6 {
        c.ev.add("combined_rank_above_6", 1);
    }
    let r = match interp.many(qx, qy) {
        Outcome::Ok(r) => r,
        Outcome::Untypeable => return,
        o => {
            c.bad("C09:interp_array-failed", format!("2-D interp_array({name}) -> {}", o.detail()));
            return;
        }
    };
    c.ev.add("array_calls", 1);
    if r.shape() != want_shape.as_slice() {
        c.bad("C09:result-shape", format!("2-D interp_array({name}) has shape {:?}, expected {:?}", r.shape(), want_shape));
        return;
    }
    let flat: Vec<T> = r.iter().copied().collect();
    for k in 0..xv.len() {
        let one = match interp.one(xv[k], yv[k]) {
            Outcome::Ok(a) => a,
            o => {
                c.bad("C09:interp-failed", format!("2-D interp({:?},{:?}) -> {}", xv[k], yv[k], o.detail()));
                return;
            }
        };
        let one_flat: Vec<T> = one.iter().copied().collect();
        c.ev.add("elements_compared", lanes as u64);
        if one.shape() != lane_shape.as_slice() || !slices_same(&one_flat, &flat[k * lanes..(k + 1) * lanes]) {
            c.bad(
                "C09:array-vs-single",
                format!("2-D interp_array({name}) at flat query index {k} = {:?} but interp = {:?}", &flat[k * lanes..(k + 1) * lanes], one_flat),
            );
            return;
        }
        if let Outcome::Ok(s) = interp.scalar(xv[k], yv[k]) {
            c.ev.add("scalar_compared", 1);
            if !vh::flt::same_bits(s, one_flat[0]) {
                c.bad("C09:scalar-vs-single", format!("2-D interp_scalar = {s:?} but interp = {:?}", one_flat[0]));
                return;
            }
        }
        if k < 3 {
            let mut buf = ArrayD::<T>::from_elem(IxDyn(&lane_shape), T::sentinel(7));
            match interp.one_into(xv[k], yv[k], buf.view_mut()) {
                Outcome::Ok(()) => {
                    c.ev.add("into_compared", 1);
                    if !vh::flt::arr_bits_eq(&buf, &one) {
                        c.bad("C09:into-vs-allocating", "2-D interp_into differs from interp".to_string());
                        return;
                    }
                }
                Outcome::Untypeable => {}
                o => {
                    c.bad("C09:interp_into-failed", format!("2-D interp_into -> {}", o.detail()));
                    return;
                }
            }
        }
    }
    let lay = vh::lay::Layout::random(rng, want_shape.len());
    let mut m = vh::lay::Mat::blank(&want_shape, &lay, |k| T::sentinel(k));
    match interp.many_into(qx, qy, m.view_mut()) {
        Outcome::Ok(()) => {
            c.ev.add("array_into_compared", 1);
            c.ev.count("buffer_layout", lay.class());
            if !vh::flt::arr_bits_eq(&m.view(), &r.view()) {
                c.bad("C09:into-vs-allocating", format!("2-D interp_array_into({name}) differs from interp_array (buffer layout {})", lay.class()));
            }
        }
        Outcome::Untypeable => {}
        o => c.bad("C09:interp_array_into-failed", format!("2-D interp_array_into({name}) -> {}", o.detail())),
    }
}

/// a batch with one out-of-range element (at a random position, preferably not the last):
/// interp_array must fail iff one of the per-element calls fails
fn check_error_agreement1<T: Elem>(c: &mut Ctx, interp: &dyn DynInterp1<T>, x: &[T], rng: &mut Rng) {
    for kind in [QKind::S1, QKind::S2, QKind::Dyn] {
        let shape: Vec<usize> = match kind {
            QKind::S2 => vec![2, 3],
            _ => vec![5],
        };
        let n: usize = shape.iter().product();
        let mut vals = distinct_queries(rng, x[0], x[x.len() - 1], n);
        let pos = rng.below(n - 1);
        vals[pos] = if rng.chance(0.5) { x[x.len() - 1].up() } else { x[0].down() };
        let qa = Query::from_vec(vals.clone(), &shape, kind);
        let singles_fail = vals.iter().any(|&q| !interp.one(q).is_ok());
        let o = interp.many(&qa);
        if matches!(o, Outcome::Untypeable) {
            continue;
        }
        c.ev.add("error_agreement_checked", 1);
        if singles_fail == o.is_ok() {
            c.bad(
                "C09:array-vs-single-error",
                format!(
                    "interp_array({}) with an out-of-range element at flat position {pos}: per-element interp {} but interp_array -> {}",
                    qa.name(),
                    if singles_fail { "fails for one element" } else { "answers every element" },
                    o.tag()
                ),
            );
            return;
        }
    }
}

fn check_error_agreement2<T: Elem>(c: &mut Ctx, interp: &dyn DynInterp2<T>, x: &[T], y: &[T], rng: &mut Rng) {
    for kind in [QKind::S1, QKind::S2, QKind::Dyn] {
        let shape: Vec<usize> = match kind {
            QKind::S2 => vec![2, 3],
            _ => vec![5],
        };
        let n: usize = shape.iter().product();
        let mut vx = distinct_queries(rng, x[0], x[x.len() - 1], n);
        let mut vy = distinct_queries(rng, y[0], y[y.len() - 1], n);
        let pos = rng.below(n - 1);
        if rng.chance(0.5) {
            vx[pos] = x[x.len() - 1].up();
        } else {
            vy[pos] = y[0].down();
        }
        let qx = Query::from_vec(vx.clone(), &shape, kind);
        let qy = Query::from_vec(vy.clone(), &shape, kind);
        let singles_fail = (0..n).any(|k| !interp.one(vx[k], vy[k]).is_ok());
        let o = interp.many(&qx, &qy);
        if matches!(o, Outcome::Untypeable) {
            continue;
        }
        c.ev.add("error_agreement_checked", 1);
        if singles_fail == o.is_ok() {
            c.bad(
                "C09:array-vs-single-error",
                format!(
                    "2-D interp_array({}) with an out-of-range element at flat position {pos}: per-element interp {} but interp_array -> {}",
                    qx.name(),
                    if singles_fail { "fails for one element" } else { "answers every element" },
                    o.tag()
                ),
            );
            return;
        }
    }
}

fn case_builtin1<T: Elem>(case: u64, args: &Args, ev: &mut Ev) {
    let mut rng = Rng::derive(args.seed, "C09", &[case]);
    let spline = case % 2 == 1;
    let (mut spec, _) = if spline {
        gen_spline_case::<T>(&mut rng, &SplineOpts { max_n: 10, max_lane_rank: 5, allow_zero_lanes: true, ..Default::default() })
    } else {
        gen_linear_case::<T>(&mut rng, &LinearOpts { max_n: 10, max_lane_rank: 5, allow_zero_lanes: true, allow_cluster: false, ..Default::default() })
    };
    if spec.data.ndim() > 6 {
        spec.dynamic = true;
    }
    // the agreement between entry points is bitwise, so the data may contain anything:
    // -0.0, infinities, NaN, +-MAX (Linear only; one such sample makes a whole spline NaN)
    if !spline && !spec.broadcast_lanes && case % 5 == 2 {
        let k = sprinkle_specials(&mut rng, &mut spec.data);
        ev.add("special_data_samples", k as u64);
    }
    // signed zeros: -0.0 == +0.0 although the answers may differ in the sign bit. The first knot
    // becomes +0.0 (default index axis) with the sample -0.0 on it, and the queries below contain
    // runs of -0.0 / +0.0 - a batch path that treats queries that compare equal as the same query
    // disagrees with the per-element calls
    let signed_zero = !spline && !spec.broadcast_lanes && case % 6 == 0;
    if signed_zero {
        spec.x = None;
        spec.data.index_axis_mut(vh::ndarray::Axis(0), 0).fill(T::of(-0.0));
        ev.add("signed_zero_cases", 1);
    }
    let x = spec.axis();
    let h = hash_bits(&[&bits_of(&x), &bits_of_arr(&spec.data)], &[T::NAME, &spec.dim_name(), &spec.strat.name()]);
    ev.case(h, true);
    ev.count("strategy", if spline { "CubicSpline" } else { "Linear" });
    ev.count("dim", spec.dim_name());
    ev.count("elem", T::NAME);
    if spec.n_lanes() == 0 {
        ev.add("zero_length_trailing_axis_cases", 1);
    }
    let replay = spec1_json(&spec);
    build1(&spec, |r| {
        let Ok(interp) = r else {
            if !matches!(r, Err(Outcome::Untypeable)) {
                ev.violation("C09:build-failed", "valid data rejected", case, replay.clone());
            }
            return;
        };
        let mut c = Ctx { ev, case, replay: replay.clone(), failed: false };
        for kind in kinds() {
            let shape = query_shape(&mut rng, kind);
            let n: usize = shape.iter().product();
            let vals = distinct_queries_with_knots(&mut rng, &x, n);
            // the query array itself comes in every memory layout (C, F, permuted, strided, reversed)
            let lay = vh::lay::Layout::random(&mut rng, shape.len());
            c.ev.count("query_layout", lay.class());
            let qa = Query::with_layout(&ArrayD::from_shape_vec(IxDyn(&shape), vals).unwrap(), kind, &lay);
            check1(&mut c, interp, &spec, &qa, &mut rng);
        }
        // zero-stride (broadcast) query views: a scalar repeated, a row / column repeated
        for (kind, reduced, full) in [
            (QKind::S1, vec![1usize], vec![3usize]),
            (QKind::S2, vec![1, 3], vec![2, 3]),
            (QKind::S2, vec![2, 1], vec![2, 3]),
            (QKind::Dyn, vec![1, 1, 2], vec![2, 3, 2]),
            (QKind::S3, vec![1, 1, 1], vec![2, 1, 3]),
        ] {
            let n: usize = reduced.iter().product();
            let vals = distinct_queries_with_knots(&mut rng, &x, n);
            let qa = Query::broadcast(&ArrayD::from_shape_vec(IxDyn(&reduced), vals).unwrap(), &full, kind);
            c.ev.count("query_layout", "broadcast");
            check1(&mut c, interp, &spec, &qa, &mut rng);
        }
        if signed_zero {
            let zero_run = |rng: &mut Rng, n: usize| -> Vec<T> {
                let mut neg = rng.chance(0.5);
                (0..n)
                    .map(|_| {
                        if rng.chance(0.2) {
                            rand_in(rng, x[0], x[x.len() - 1])
                        } else {
                            neg = !neg;
                            T::of(if neg { -0.0 } else { 0.0 })
                        }
                    })
                    .collect()
            };
            for (kind, reduced, full) in [
                (QKind::S1, vec![5usize], vec![5usize]),
                (QKind::S2, vec![4, 1], vec![4, 3]),
                (QKind::S2, vec![1, 4], vec![3, 4]),
                (QKind::S2, vec![3, 4], vec![3, 4]),
                (QKind::Dyn, vec![4, 1], vec![4, 2]),
                (QKind::Dyn, vec![2, 3, 1], vec![2, 3, 2]),
                (QKind::S3, vec![4, 1, 1], vec![4, 2, 2]),
                (QKind::S3, vec![1, 4, 1], vec![2, 4, 3]),
            ] {
                let n: usize = reduced.iter().product();
                let vals = zero_run(&mut rng, n);
                let arr = ArrayD::from_shape_vec(IxDyn(&reduced), vals).unwrap();
                let qa = if reduced == full {
                    let lay = vh::lay::Layout::random(&mut rng, full.len());
                    Query::with_layout(&arr, kind, &lay)
                } else {
                    Query::broadcast(&arr, &full, kind)
                };
                c.ev.add("signed_zero_query_batches", 1);
                check1(&mut c, interp, &spec, &qa, &mut rng);
            }
        }
        if !spec.strat.extrapolates() && spec.n_lanes() > 0 {
            check_error_agreement1(&mut c, interp, &x, &mut rng);
        }
        // occasionally a large batch (thousands of queries in one call)
        if case % 16 == 0 && spec.n_lanes() > 0 && spec.n_lanes() <= 6 && !c.failed {
            for (kind, shape) in [(QKind::S1, vec![5000usize]), (QKind::S2, vec![40, 125]), (QKind::Dyn, vec![8, 9, 70])] {
                let n: usize = shape.iter().product();
                let vals: Vec<T> = (0..n).map(|_| rand_in(&mut rng, x[0], x[x.len() - 1])).collect();
                let qa = Query::from_vec(vals.clone(), &shape, kind);
                let lanes = spec.n_lanes();
                match interp.many(&qa) {
                    Outcome::Ok(r) => {
                        c.ev.add("large_batches", 1);
                        let flat: Vec<T> = r.iter().copied().collect();
                        let mut want = shape.clone();
                        want.extend(spec.lane_shape());
                        if r.shape() != want.as_slice() {
                            c.bad("C09:result-shape", format!("large batch {:?}: shape {:?}, expected {:?}", shape, r.shape(), want));
                            break;
                        }
                        for _ in 0..80 {
                            let k = rng.below(n);
                            let Outcome::Ok(one) = interp.one(vals[k]) else {
                                c.bad("C09:interp-failed", format!("interp({:?}) failed although the batch answered", vals[k]));
                                break;
                            };
                            let of: Vec<T> = one.iter().copied().collect();
                            c.ev.add("elements_compared", lanes as u64);
                            if !slices_same(&of, &flat[k * lanes..(k + 1) * lanes]) {
                                c.bad("C09:array-vs-single", format!("large batch {:?} ({} queries): element {k} differs from interp(q[{k}])", shape, n));
                                break;
                            }
                        }
                    }
                    Outcome::Untypeable => {}
                    o => c.bad("C09:interp_array-failed", format!("large batch {:?} -> {}", shape, o.detail())),
                }
            }
        }
    });
}

fn case_builtin2<T: Elem>(case: u64, args: &Args, ev: &mut Ev) {
    let mut rng = Rng::derive(args.seed, "C09", &[case]);
    let (mut spec, _) = gen_grid_case::<T>(&mut rng, &GridOpts { max_nx: 6, max_ny: 5, max_lane_rank: 4, allow_zero_lanes: true, allow_cluster: false, ..Default::default() });
    if spec.data.ndim() > 6 {
        spec.dynamic = true;
    }
    if !spec.broadcast_lanes && case % 5 == 2 {
        let k = sprinkle_specials(&mut rng, &mut spec.data);
        ev.add("special_data_samples", k as u64);
    }
    let x = spec.axis_x();
    let y = spec.axis_y();
    let h = hash_bits(&[&bits_of(&x), &bits_of(&y), &bits_of_arr(&spec.data)], &[T::NAME, &spec.dim_name()]);
    ev.case(h, true);
    ev.count("strategy", "Bilinear");
    ev.count("dim", format!("2d-{}", spec.dim_name()));
    ev.count("elem", T::NAME);
    if spec.n_lanes() == 0 {
        ev.add("zero_length_trailing_axis_cases", 1);
    }
    let replay = spec2_json(&spec);
    build2(&spec, |r| {
        let Ok(interp) = r else {
            if !matches!(r, Err(Outcome::Untypeable)) {
                ev.violation("C09:build-failed", "valid grid rejected", case, replay.clone());
            }
            return;
        };
        let mut c = Ctx { ev, case, replay: replay.clone(), failed: false };
        for kind in kinds() {
            let shape = query_shape(&mut rng, kind);
            let n: usize = shape.iter().product();
            let vx = distinct_queries_with_knots(&mut rng, &x, n);
            let vy = distinct_queries_with_knots(&mut rng, &y, n);
            let lx = vh::lay::Layout::random(&mut rng, shape.len());
            let ly = vh::lay::Layout::random(&mut rng, shape.len());
            c.ev.count("query_layout", lx.class());
            let qx = Query::with_layout(&ArrayD::from_shape_vec(IxDyn(&shape), vx).unwrap(), kind, &lx);
            let qy = Query::with_layout(&ArrayD::from_shape_vec(IxDyn(&shape), vy).unwrap(), kind, &ly);
            check2(&mut c, interp, &spec, &qx, &qy, &mut rng);
        }
        // zero-stride (broadcast) query views: mesh grids (xs repeated along one axis, ys along
        // another), a scalar against an array, both scalars
        for (kind, rx, ry, full) in [
            (QKind::S2, vec![1usize, 3], vec![2usize, 1], vec![2usize, 3]),
            (QKind::S2, vec![2, 1], vec![1, 3], vec![2, 3]),
            (QKind::Dyn, vec![1, 3], vec![2, 1], vec![2, 3]),
            (QKind::S3, vec![1, 1, 3], vec![1, 2, 1], vec![2, 2, 3]),
            (QKind::S1, vec![1], vec![3], vec![3]),
            (QKind::S1, vec![1], vec![1], vec![4]),
            (QKind::S2, vec![1, 3], vec![1, 3], vec![2, 3]),
        ] {
            let (nx_, ny_): (usize, usize) = (rx.iter().product(), ry.iter().product());
            let vx = distinct_queries_with_knots(&mut rng, &x, nx_);
            let vy = distinct_queries_with_knots(&mut rng, &y, ny_);
            let qx = Query::broadcast(&ArrayD::from_shape_vec(IxDyn(&rx), vx).unwrap(), &full, kind);
            let qy = Query::broadcast(&ArrayD::from_shape_vec(IxDyn(&ry), vy).unwrap(), &full, kind);
            c.ev.count("query_layout", "broadcast");
            check2(&mut c, interp, &spec, &qx, &qy, &mut rng);
        }
        check_error_agreement2(&mut c, interp, &x, &y, &mut rng);
    });
}

/// placement through the recording strategy
fn case_rec<T: Elem>(case: u64, args: &Args, ev: &mut Ev) {
    let mut rng = Rng::derive(args.seed, "C09-rec", &[case]);
    let two_d = case % 2 == 1;
    let lane_shape = gen_lane_shape(&mut rng, if two_d { 3 } else { 4 }, true);
    let lanes: usize = lane_shape.iter().product();
    let h = RecHandle::new();
    let dynamic = rng.chance(0.3);
    ev.count("strategy", if two_d { "Rec2" } else { "Rec1" });
    ev.count("elem", T::NAME);
    // queries: distinct small dyadic values so that the code is exact and injective
    let mk_vals = |rng: &mut Rng, n: usize| -> Vec<T> {
        let mut pool: Vec<i64> = (0..256).collect();
        rng.shuffle(&mut pool);
        pool.into_iter().take(n).map(|i| T::of(i as f64 * 0.25)).collect()
    };
    if !two_d {
        let n = 3 + rng.below(3);
        let mut shape = vec![n];
        shape.extend(&lane_shape);
        let data = ArrayD::<T>::zeros(IxDyn(&shape));
        let mut spec = Spec1::new(data, None, Strat1::Rec { min: 2, h: h.clone() });
        spec.dynamic = dynamic;
        ev.case(vh::rng::fnv(format!("rec1 {shape:?} {dynamic} {}", T::NAME).as_bytes()) ^ case, true);
        ev.count("dim", spec.dim_name());
        let replay = spec1_json(&spec);
        build1(&spec, |r| {
            let Ok(interp) = r else {
                if !matches!(r, Err(Outcome::Untypeable)) {
                    ev.violation("C09:build-failed", "recording strategy rejected", case, replay.clone());
                }
                return;
            };
            for kind in kinds() {
                let qshape = query_shape(&mut rng, kind);
                let nq: usize = qshape.iter().product();
                let vals = mk_vals(&mut rng, nq);
                let lay = vh::lay::Layout::random(&mut rng, qshape.len());
                let qa = Query::with_layout(&ArrayD::from_shape_vec(IxDyn(&qshape), vals.clone()).unwrap(), kind, &lay);
                ev.count("query_kind", kind.name());
                ev.count("query_layout", lay.class());
                h.reset_calls();
                match interp.many(&qa) {
                    Outcome::Ok(r) => {
                        let flat: Vec<T> = r.iter().copied().collect();
                        ev.add("placement_elements_checked", flat.len() as u64);
                        for (k, &q) in vals.iter().enumerate() {
                            for l in 0..lanes {
                                let want = code1(q, l);
                                if !vh::flt::same_bits(flat[k * lanes + l], want) {
                                    ev.violation(
                                        "C09:placement",
                                        &format!(
                                            "interp_array({}) lanes {:?}: element (query {k}, lane {l}) holds {:?}, the strategy wrote {:?} for this query/lane",
                                            qa.name(), lane_shape, flat[k * lanes + l], want
                                        ),
                                        case,
                                        replay.clone(),
                                    );
                                    return;
                                }
                            }
                        }
                        let calls = h.take_calls();
                        if calls.len() != nq {
                            ev.violation("C09:placement", &format!("strategy invoked {} times for {} queries", calls.len(), nq), case, replay.clone());
                            return;
                        }
                    }
                    Outcome::Untypeable => {}
                    o => {
                        ev.violation("C09:interp_array-failed", &format!("recording strategy: {}", o.detail()), case, replay.clone());
                        return;
                    }
                }
            }
        });
    } else {
        let (nx, ny) = (2 + rng.below(3), 2 + rng.below(3));
        let mut shape = vec![nx, ny];
        shape.extend(&lane_shape);
        let data = ArrayD::<T>::zeros(IxDyn(&shape));
        let mut spec = Spec2::new(data, None, None, Strat2::Rec { min: 2, h: h.clone() });
        spec.dynamic = dynamic;
        ev.case(vh::rng::fnv(format!("rec2 {shape:?} {dynamic} {}", T::NAME).as_bytes()) ^ case, true);
        ev.count("dim", format!("2d-{}", spec.dim_name()));
        let replay = spec2_json(&spec);
        build2(&spec, |r| {
            let Ok(interp) = r else {
                if !matches!(r, Err(Outcome::Untypeable)) {
                    ev.violation("C09:build-failed", "recording strategy rejected", case, replay.clone());
                }
                return;
            };
            for kind in kinds() {
                let qshape = query_shape(&mut rng, kind);
                let nq: usize = qshape.iter().product();
                let vx = mk_vals(&mut rng, nq);
                let vy: Vec<T> = mk_vals(&mut rng, nq).into_iter().map(|v| v * T::of(0.25)).collect();
                let qx = Query::from_vec(vx.clone(), &qshape, kind);
                let qy = Query::from_vec(vy.clone(), &qshape, kind);
                ev.count("query_kind", kind.name());
                match interp.many(&qx, &qy) {
                    Outcome::Ok(r) => {
                        let flat: Vec<T> = r.iter().copied().collect();
                        ev.add("placement_elements_checked", flat.len() as u64);
                        for k in 0..nq {
                            for l in 0..lanes {
                                let want = code2(vx[k], vy[k], l);
                                if !vh::flt::same_bits(flat[k * lanes + l], want) {
                                    ev.violation(
                                        "C09:placement",
                                        &format!("2-D interp_array({}) lanes {:?}: element (query {k}, lane {l}) holds {:?}, expected {:?}", qx.name(), lane_shape, flat[k * lanes + l], want),
                                        case,
                                        replay.clone(),
                                    );
                                    return;
                                }
                            }
                        }
                    }
                    Outcome::Untypeable => {}
                    o => {
                        ev.violation("C09:interp_array-failed", &format!("2-D recording strategy: {}", o.detail()), case, replay.clone());
                        return;
                    }
                }
            }
        });
    }
    let _ = Array1::<T>::zeros(0);
}

/// xs and ys of a 2-D batch as two views of one buffer: a square array and its own transpose,
/// a square mesh made from one vector (broadcast view and its transpose), a window and a
/// strided view that start at the same element. Each element must be what interp(xs[i], ys[i])
/// gives - whatever memory the two arrays share.
fn aliased_query_pairs(ev: &mut Ev) {
    use vh::ndarray::{s, Array1, Array2, Array3, Axis};
    use vh::ndarray_interp::interp2d::Interp2D;
    let mut rng = Rng::derive(9, "C09-aliased-query-pairs", &[0]);
    for round in 0..(if cfg!(miri) { 4u64 } else { 60 }) {
        let (nx, ny) = (3 + rng.below(4), 3 + rng.below(4));
        // both axes cover [0, 4]
        let mk_axis = |rng: &mut Rng, n: usize| -> Array1<f64> {
            let mut v: Vec<f64> = vec![0.0, 4.0];
            while v.len() < n {
                let c = (1 + rng.below(31)) as f64 / 8.0;
                if !v.contains(&c) {
                    v.push(c);
                }
            }
            v.sort_by(|a, b| a.partial_cmp(b).unwrap());
            Array1::from(v)
        };
        let (ax, ay) = (mk_axis(&mut rng, nx), mk_axis(&mut rng, ny));
        let grid: Array3<f64> = Array3::from_shape_fn((nx, ny, 2), |_| rng.f01() * 16.0 - 8.0);
        let b = Interp2D::builder(grid).x(ax).y(ay).build().unwrap();
        let m = 2 + rng.below(3);
        let a: Array2<f64> = Array2::from_shape_fn((m, m), |_| rng.f01() * 4.0);
        let q: Array1<f64> = (0..m).map(|_| rng.f01() * 4.0).collect();
        let col = q.view().insert_axis(Axis(1));
        let mesh = col.broadcast((m, m)).unwrap();
        let long: Array1<f64> = (0..2 * m).map(|_| rng.f01() * 4.0).collect();
        let mut check = |name: &str, got: Vec<f64>, xs: Vec<f64>, ys: Vec<f64>, ev: &mut Ev| {
            ev.add("aliased_query_pair_calls", 1);
            let want: Vec<u64> = xs.iter().zip(&ys).flat_map(|(&x, &y)| b.interp(x, y).unwrap().iter().map(|v| v.to_bits()).collect::<Vec<_>>()).collect();
            if got.iter().map(|v| v.to_bits()).collect::<Vec<_>>() != want {
                ev.violation(
                    "C09:array-vs-single",
                    &format!("2-D interp_array with {name}: xs {:?}, ys {:?}: result {:?} differs from the per-element calls", xs, ys, got),
                    9_300_000 + round,
                    J::obj().set("variant", name),
                );
            }
        };
        let flat = |v: vh::ndarray::ArrayView2<f64>| -> Vec<f64> { v.iter().copied().collect() };
        check("a square array and its transpose (Ix2)", b.interp_array(&a, &a.t()).unwrap().iter().copied().collect(), flat(a.view()), flat(a.t()), ev);
        check("the transpose and the array (Ix2)", b.interp_array(&a.t(), &a).unwrap().iter().copied().collect(), flat(a.t()), flat(a.view()), ev);
        check(
            "a square array and its transpose (IxDyn)",
            b.interp_array(&a.view().into_dyn(), &a.t().into_dyn()).unwrap().iter().copied().collect(),
            flat(a.view()),
            flat(a.t()),
            ev,
        );
        check("a square mesh from one vector: broadcast view and its transpose", b.interp_array(&mesh, &mesh.t()).unwrap().iter().copied().collect(), flat(mesh.view()), flat(mesh.t()), ev);
        check("the same array twice", b.interp_array(&a, &a).unwrap().iter().copied().collect(), flat(a.view()), flat(a.view()), ev);
        let (w1, w2) = (long.slice(s![..m]), long.slice(s![..2 * m - 1;2]));
        check("a window and a strided view from the same element (Ix1)", b.interp_array(&w1, &w2).unwrap().iter().copied().collect(), w1.to_vec(), w2.to_vec(), ev);
        let (d1, d2) = (w1.into_dyn(), w2.into_dyn());
        check("a window and a strided view from the same element (IxDyn)", b.interp_array(&d1, &d2).unwrap().iter().copied().collect(), d1.iter().copied().collect(), d2.iter().copied().collect(), ev);
    }
}

fn main() {
    let args = Args::parse("C09");
    let n = args.budget(600, 60000);
    let ev = run_sharded(&args, n, |case, ev, _log| {
        let f32_ = case % 5 == 4;
        match (case % 3, f32_) {
            (0, false) => case_builtin1::<f64>(case, &args, ev),
            (0, true) => case_builtin1::<f32>(case, &args, ev),
            (1, false) => case_builtin2::<f64>(case, &args, ev),
            (1, true) => case_builtin2::<f32>(case, &args, ev),
            (_, false) => case_rec::<f64>(case, &args, ev),
            (_, true) => case_rec::<f32>(case, &args, ev),
        }
    });
    let mut ev = ev;
    if args.blocks() {
        aliased_query_pairs(&mut ev);
    }
    ev.finish(
        &args,
        "Interp1D (Linear, CubicSpline) and Interp2D (Bilinear) over data Ix1..Ix6 / IxDyn incl. \
         zero-length trailing axes; per interpolator one query array of every dimension type Ix0..Ix4 \
         and IxDyn (dynamic rank 0..3) with pairwise distinct extents, sometimes a zero-length axis, \
         pairwise distinct values; recording strategies Rec1/Rec2 for placement. Every case is \
         non-trivial (contains rank >= 2 / dynamic / rank 0 queries); distinct by input hash.",
        J::obj(),
    );
}
