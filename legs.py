"""Execution legs: how a driver is built and run (native, unoptimised, Miri, ASan,
valgrind memcheck, TSan). One sanitizer family per build; the same driver/workload
per build. Imported by ./check."""
import json
import os
import re
import subprocess
import time


def run_leg(C, prop, conf, tier, leg, scale, opts, replay_case):
    if leg in ("native", "o0"):
        return native_leg(C, prop, conf, tier, leg, scale, opts, replay_case)
    if leg == "miri":
        return miri_leg(C, prop, conf, tier, leg, scale, opts, replay_case)
    if leg == "asan":
        return asan_leg(C, prop, conf, tier, leg, scale, opts, replay_case)
    if leg == "valgrind":
        return valgrind_leg(C, prop, conf, tier, leg, scale, opts, replay_case)
    if leg == "tsan":
        return tsan_leg(C, prop, conf, tier, leg, scale, opts, replay_case)
    raise C.Inconclusive(f"unknown leg {leg}")


def collect(C, prop, conf, tier, leg, od, rc, out, wall, oracle_wanted, extra_info=None):
    cov, viols = C.read_driver_results(od, prop, leg)
    if cov is None:
        raise C.Inconclusive(f"driver for {prop} leg {leg} produced no coverage (exit {rc}):\n" + out[-3000:])
    oracle = None
    if oracle_wanted:
        oracle = C.run_oracle(od)
        for v in oracle["violations"]:
            v["leg"] = leg
            viols.append(v)
        ev = max(1, oracle["events"])
        if oracle["inconclusive"] > 0.02 * ev + 2 and any(k.startswith("checker-error") for k in oracle["counts"]):
            raise C.Inconclusive(f"offline checker errors: {oracle['counts']}")
        # the logs can be large: drop them once checked
        for f in os.listdir(od):
            if f.startswith("log-"):
                os.remove(os.path.join(od, f))
    info = {"leg": leg, "scale": scale_of(cov), "evaluations": cov["coverage"]["evaluations"],
            "violations": len(viols), "wall_s": round(wall, 2)}
    if extra_info:
        info.update(extra_info)
    return cov, viols, oracle, info


def scale_of(cov):
    return cov["coverage"].get("scale")


def native_leg(C, prop, conf, tier, leg, scale, opts, replay_case):
    bindir = C.cargo_build(leg, [conf["bin"]])
    od, rc, out, wall = C.run_driver(bindir, conf["bin"], prop, tier, leg, scale=scale,
                                     only=replay_case, extra_args=opts.get("args"),
                                     timeout=opts.get("timeout", 3600))
    if rc != 0:
        raise C.Inconclusive(f"driver {conf['bin']} leg {leg} exited with {rc} (harness error):\n" + out[-3000:])
    return collect(C, prop, conf, tier, leg, od, rc, out, wall, conf.get("oracle", False))


def miri_leg(C, prop, conf, tier, leg, scale, opts, replay_case):
    raise C.Inconclusive("miri leg not implemented yet")


def asan_leg(C, prop, conf, tier, leg, scale, opts, replay_case):
    raise C.Inconclusive("asan leg not implemented yet")


def valgrind_leg(C, prop, conf, tier, leg, scale, opts, replay_case):
    raise C.Inconclusive("valgrind leg not implemented yet")


def tsan_leg(C, prop, conf, tier, leg, scale, opts, replay_case):
    raise C.Inconclusive("tsan leg not implemented yet")
