//! instantiations of the interpolator zoo: spline / f64 (see vh-core::dynapi)
vh_core::def_with1!(with, f64, spline, [oo lean] [all lean] [oo lean] [oo lean] [oo lean] [oo lean] [all lean]);
