//! C15 - results are independent of the units of the axis and linear in the data.
//! In-process (bitwise): data * 2^j, axis & queries * 2^k (boundary derivative values
//! converted), negation of the data, shifts on a common dyadic grid. Offline (up to
//! rounding): inexact factors / shifts and superpositions are logged as ordinary problems
//! and each is compared with its own exact oracle.

use vh::cases::*;
use vh::events::*;
use vh::gen::*;
use vh::ndarray::{Array1, ArrayD, Axis, IxDyn};
use vh::report::*;
use vh::spec::*;
use vh::*;

fn scale_sb<T: Flt>(b: &SB<T>, d1: T, d2: T) -> SB<T> {
    match b {
        SB::FirstDeriv(v) => SB::FirstDeriv(*v * d1),
        SB::SecondDeriv(v) => SB::SecondDeriv(*v * d2),
        o => o.clone(),
    }
}

/// convert boundary derivative values: first derivatives * d1, second derivatives * d2
fn scale_bound<T: Flt>(b: &Bound<T>, d1: T, d2: T) -> Bound<T> {
    match b {
        Bound::Individual(a) => Bound::Individual(a.mapv(|r| match r {
            RB::Mixed(l, r) => RB::Mixed(scale_sb(&l, d1, d2), scale_sb(&r, d1, d2)),
            o => o,
        })),
        o => o.clone(),
    }
}

/// dyadic-grid axis: integers K_i * 2^-s, returns (values, K, s)
fn grid_axis<T: Flt>(rng: &mut Rng, n: usize) -> (Vec<T>, Vec<i64>, i32) {
    let s = rng.irange(0, 6) as i32;
    let mut k = rng.irange(-300, 300);
    let mut ks = Vec::with_capacity(n);
    for _ in 0..n {
        ks.push(k);
        k += 1 + rng.below(12) as i64;
    }
    (ks.iter().map(|&k| T::of(k as f64 * f64::pow2(-s))).collect(), ks, s)
}

/// queries on a finer dyadic grid (s+3 bits): knots, interior points, optionally outside
fn grid_queries<T: Flt>(rng: &mut Rng, ks: &[i64], s: i32, outside: bool, count: usize) -> Vec<T> {
    let f = 8i64;
    let lo = ks[0] * f;
    let hi = ks[ks.len() - 1] * f;
    let mut q: Vec<i64> = ks.iter().map(|k| k * f).collect();
    for _ in 0..count {
        q.push(lo + rng.below((hi - lo + 1) as usize) as i64);
    }
    if outside {
        for _ in 0..6 {
            let d = 1 + rng.below(((hi - lo) * 3) as usize) as i64;
            q.push(if rng.chance(0.5) { lo - d } else { hi + d });
        }
    }
    q.into_iter().map(|v| T::of(v as f64 * f64::pow2(-s - 3))).collect()
}

fn results1<T: Elem>(spec: &Spec1<T>, q: &[T]) -> Outcome<Vec<T>> {
    build1(spec, |r| match r {
        Ok(i) => {
            let qa = Query::from_vec(q.to_vec(), &[q.len()], QKind::S1);
            i.many(&qa).map(|a| a.iter().copied().collect())
        }
        Err(o) => match o {
            Outcome::Err(k, m) => Outcome::Err(format!("build:{k}"), m),
            Outcome::Panic(m) => Outcome::Panic(m),
            _ => Outcome::Untypeable,
        },
    })
}

fn results2<T: Elem>(spec: &Spec2<T>, qx: &[T], qy: &[T]) -> Outcome<Vec<T>> {
    build2(spec, |r| match r {
        Ok(i) => {
            let a = Query::from_vec(qx.to_vec(), &[qx.len()], QKind::S1);
            let b = Query::from_vec(qy.to_vec(), &[qy.len()], QKind::S1);
            i.many(&a, &b).map(|a| a.iter().copied().collect())
        }
        Err(_) => Outcome::Untypeable,
    })
}

struct Cmp<'a> {
    ev: &'a mut Ev,
    case: u64,
    replay: J,
    ok: bool,
}

impl Cmp<'_> {
    fn bitwise<T: Flt>(&mut self, what: &str, base: &[T], got: &Outcome<Vec<T>>, undo: &dyn Fn(T) -> T) {
        if !self.ok {
            return;
        }
        let class: String = what
            .split(|c: char| c == ' ')
            .next()
            .unwrap()
            .chars()
            .filter(|c| !c.is_ascii_digit() && *c != '-')
            .collect();
        self.ev.count("transformation", class);
        match got {
            Outcome::Ok(v) => {
                self.ev.add("values_compared_bitwise", v.len() as u64);
                for (k, (a, b)) in base.iter().zip(v).enumerate() {
                    let back = undo(*b);
                    // +0 and -0 are the same number: exact cancellation gives +0 whatever the
                    // sign of the operands, so the sign of a zero result is not judged
                    let both_zero = back == T::of(0.0) && *a == T::of(0.0);
                    // results so small that the transformed result may be subnormal are not
                    // judged (scaling is then not exact)
                    let floor = if T::MANT == 23 { 1.0e-25 } else { 1.0e-250 };
                    let tiny = a.f().abs() < floor || b.f().abs() < floor;
                    if tiny && !both_zero {
                        self.ev.add("values_skipped_underflow_range", 1);
                        continue;
                    }
                    if back.bits() != a.bits() && !(back != back && *a != *a) && !both_zero {
                        self.ok = false;
                        self.ev.violation(
                            "C15:not-invariant-bitwise",
                            &format!("{what}: result #{k} is {a:?} (bits {:x}) originally but {back:?} (bits {:x}) after transforming the problem and undoing the transformation", a.bits(), back.bits()),
                            self.case,
                            self.replay.clone().set("transformation", what),
                        );
                        return;
                    }
                }
            }
            o => {
                self.ok = false;
                self.ev.violation(
                    "C15:transformed-problem-failed",
                    &format!("{what}: transformed problem -> {}", o.detail()),
                    self.case,
                    self.replay.clone().set("transformation", what),
                );
            }
        }
    }
}

fn with_strat<T: Flt>(spec: &Spec1<T>, f: impl Fn(&Bound<T>) -> Bound<T>) -> Strat1<T> {
    match &spec.strat {
        Strat1::Spline { extrapolate, boundary } => Strat1::Spline { extrapolate: *extrapolate, boundary: f(boundary) },
        o => o.clone(),
    }
}

fn case1<T: Elem>(case: u64, spline: bool, args: &Args, ev: &mut Ev, log: &mut EventLog) {
    let mut rng = Rng::derive(args.seed, "C15", &[case]);
    let extrapolate = rng.chance(0.4);
    // dyadic-grid axis so that shifts are exact; data arbitrary
    let n = if case % 70 == 13 {
        *rng.pick(&[65usize, 257, 513])
    } else if spline {
        pick_n(&mut rng, 3, 24)
    } else {
        pick_n(&mut rng, 2, 24)
    };
    let (x, ks, s) = grid_axis::<T>(&mut rng, n);
    let lanes = gen_lane_shape(&mut rng, 2, false);
    let mut shape = vec![n];
    shape.extend(&lanes);
    let dclass = *rng.pick(&DataClass::ALL);
    let mut data = gen_data::<T>(&mut rng, &shape, dclass, (0, 0));
    let n_lanes: usize = lanes.iter().product();
    let strat = if spline {
        let (d1, d2) = deriv_scales(&x, &data);
        let mut bshape = vec![1usize];
        bshape.extend(&lanes);
        let boundary = match case % 7 {
            0 => Bound::NotAKnot,
            1 => Bound::Natural,
            2 => Bound::Clamped,
            3 => Bound::Periodic,
            _ => {
                let pair = sb_pair_index((case / 7) as usize);
                let rows: Vec<RB<T>> = (0..n_lanes)
                    .map(|_| {
                        if rng.chance(0.6) {
                            RB::Mixed(
                                gen_single_boundary(&mut rng, pair.0, if pair.0 == 3 { d1 } else { d2 }),
                                gen_single_boundary(&mut rng, pair.1, if pair.1 == 3 { d1 } else { d2 }),
                            )
                        } else {
                            gen_row_boundary(&mut rng, d1, d2)
                        }
                    })
                    .collect();
                Bound::Individual(ArrayD::from_shape_vec(IxDyn(&bshape), rows).unwrap())
            }
        };
        if matches!(boundary, Bound::Periodic) {
            let first = data.index_axis(Axis(0), 0).to_owned();
            data.index_axis_mut(Axis(0), n - 1).assign(&first);
        }
        Strat1::Spline { extrapolate, boundary }
    } else {
        Strat1::Linear { extrapolate }
    };
    let spec = Spec1::new(data.clone(), Some(Array1::from(x.clone())), strat);
    let q = grid_queries::<T>(&mut rng, &ks, s, extrapolate, 30);
    let h = hash_bits(&[&bits_of(&x), &bits_of_arr(&data), &bits_of(&q)], &[T::NAME, &spec.strat.name()]);
    ev.case(h, !is_uniform(&x));
    ev.count("strategy", spec.strat.name());
    ev.count("elem", T::NAME);
    ev.count("extrapolate", if extrapolate { "on" } else { "off" });
    let base = match results1(&spec, &q) {
        Outcome::Ok(v) => v,
        o => {
            ev.violation("C15:base-problem-failed", &o.detail(), case, spec1_json(&spec));
            return;
        }
    };
    let mut c = Cmp { ev, case, replay: spec1_json(&spec).set("queries", hexes(q.iter().copied())), ok: true };
    let lim = if T::MANT == 23 { 12 } else { 20 };

    // (1) data * 2^j
    let j = rng.irange(-lim, lim) as i32;
    let f = T::pow2(j);
    let mut s1 = spec.clone();
    s1.data = data.mapv(|v| v * f);
    s1.strat = with_strat(&spec, |b| scale_bound(b, f, f));
    c.bitwise(&format!("data*2^{j}"), &base, &results1(&s1, &q), &|v| v * T::pow2(-j));

    // (2) axis and queries * 2^k (derivative values converted to the new units)
    let k = rng.irange(-lim, lim) as i32;
    let g = T::pow2(k);
    let mut s2 = spec.clone();
    s2.x = Some(Array1::from(x.iter().map(|v| *v * g).collect::<Vec<_>>()));
    s2.strat = with_strat(&spec, |b| scale_bound(b, T::pow2(-k), T::pow2(-2 * k)));
    let q2: Vec<T> = q.iter().map(|v| *v * g).collect();
    c.bitwise(&format!("axis*2^{k}"), &base, &results1(&s2, &q2), &|v| v);

    // (3) both at once
    let mut s3 = s2.clone();
    s3.data = data.mapv(|v| v * f);
    s3.strat = with_strat(&spec, |b| scale_bound(b, T::pow2(j - k), T::pow2(j - 2 * k)));
    c.bitwise(&format!("data*2^{j},axis*2^{k}"), &base, &results1(&s3, &q2), &|v| v * T::pow2(-j));

    // (4) negation of the data
    let mut s4 = spec.clone();
    s4.data = data.mapv(|v| -v);
    s4.strat = with_strat(&spec, |b| scale_bound(b, -T::of(1.0), -T::of(1.0)));
    c.bitwise("negation", &base, &results1(&s4, &q), &|v| -v);

    // (5) shift of axis and queries by a multiple of the grid step (exact on the grid)
    let d = rng.irange(-4000, 4000);
    let sh = T::of(d as f64 * f64::pow2(-s));
    let mut s5 = spec.clone();
    s5.x = Some(Array1::from(x.iter().map(|v| *v + sh).collect::<Vec<_>>()));
    let q5: Vec<T> = q.iter().map(|v| *v + sh).collect();
    // the shift must be exact for every value involved (it is by construction for f64;
    // for f32 the check protects against mantissa overflow)
    let exact = x.iter().chain(q.iter()).all(|v| (*v + sh) - sh == *v && (v.f() + sh.f()) == (*v + sh).f());
    if exact {
        c.bitwise(&format!("shift {d}*2^-{s}"), &base, &results1(&s5, &q5), &|v| v);
    } else {
        c.ev.add("shift_skipped_not_exact", 1);
    }
    if !c.ok {
        return;
    }
    c.ev.sample(|| {
        J::obj()
            .set("case", case)
            .set("spec", spec1_json(&spec))
            .set("transformations", J::arr(vec![format!("data*2^{j}"), format!("axis*2^{k}"), "negation".to_string(), format!("shift {d}*2^-{s}")]))
    });

    // ---- inexact transformations: each problem is compared with its own exact oracle
    let checks: &[&str] = if spline { &["value"] } else { &["line"] };
    let inexact = *rng.pick(&[3.0, 0.1, 7.3]);
    let mut s6 = spec.clone();
    s6.x = Some(Array1::from(x.iter().map(|v| *v * T::of(inexact)).collect::<Vec<_>>()));
    fix_axis(&mut s6);
    s6.strat = with_strat(&spec, |b| scale_bound(b, T::of(1.0 / inexact), T::of(1.0 / (inexact * inexact))));
    let q6: Vec<T> = q.iter().map(|v| *v * T::of(inexact)).collect();
    let mut s7 = spec.clone();
    s7.x = Some(Array1::from(x.iter().map(|v| *v + T::of(0.1)).collect::<Vec<_>>()));
    fix_axis(&mut s7);
    let q7: Vec<T> = q.iter().map(|v| *v + T::of(0.1)).collect();
    // superposition: y = y1 + y2 (same boundary kinds; derivative values added)
    let data2 = gen_data::<T>(&mut rng, &shape, dclass, (0, 0));
    let mut s8 = spec.clone();
    s8.data = &data + &data2;
    if let Strat1::Spline { boundary: Bound::Periodic, .. } = &spec.strat {
        let first = s8.data.index_axis(Axis(0), 0).to_owned();
        s8.data.index_axis_mut(Axis(0), n - 1).assign(&first);
    }
    let mut s9 = spec.clone();
    s9.data = data.mapv(|v| v * T::of(3.0));
    s9.strat = with_strat(&spec, |b| scale_bound(b, T::of(3.0), T::of(3.0)));
    for (name, sp, qq) in [("axis*c", &s6, &q6), ("axis+0.1", &s7, &q7), ("sum-of-data-sets", &s8, &q), ("data*3", &s9, &q)] {
        // queries must stay in range when extrapolation is off (rounding of the transformed
        // range ends can push a query just outside)
        let ax = sp.axis();
        let qq: Vec<T> = qq.iter().copied().filter(|v| extrapolate || (*v >= ax[0] && *v <= ax[ax.len() - 1])).collect();
        if qq.is_empty() {
            continue;
        }
        if let Outcome::Ok(r) = results1(sp, &qq) {
            c.ev.count("inexact_transformation", name);
            c.ev.add("inexact_problems_logged", 1);
            log.push(&event1("C15", case, sp, &qq, &r, name, checks));
        } else {
            c.ev.violation("C15:transformed-problem-failed", &format!("{name}: transformed problem failed"), case, spec1_json(sp));
        }
    }
}

/// many small spline problems on *full-mantissa* non-uniform axes (h^2 is then not exactly
/// representable, which is where a non-equivariant squaring shows), scale changes only
fn case_small<T: Elem>(case: u64, args: &Args, ev: &mut Ev) {
    let mut rng = Rng::derive(args.seed, "C15-small", &[case]);
    let n = 4 + rng.below(3);
    let x: Vec<T> = gen_axis(&mut rng, n, AxisClass::FullMantissa, &AxisOpts { max_ratio: 16.0, scale_exp: (0, 0) });
    let data = gen_data::<T>(&mut rng, &[n], DataClass::FullMantissa, (0, 0));
    let (d1, d2) = deriv_scales(&x, &data);
    // NotAKnot and SecondDeriv are the rows that contain a squared interval width
    let pair = ([0usize, 4][(case % 2) as usize], [0usize, 4][((case / 2) % 2) as usize]);
    let boundary = match case % 5 {
        0 => Bound::NotAKnot,
        _ => Bound::Individual(
            ArrayD::from_shape_vec(
                IxDyn(&[1]),
                vec![RB::Mixed(
                    gen_single_boundary(&mut rng, pair.0, if pair.0 == 3 { d1 } else { d2 }),
                    gen_single_boundary(&mut rng, pair.1, if pair.1 == 3 { d1 } else { d2 }),
                )],
            )
            .unwrap(),
        ),
    };
    let spec = Spec1::new(data.clone(), Some(Array1::from(x.clone())), Strat1::Spline { extrapolate: false, boundary });
    let q: Vec<T> = (0..4).map(|_| rand_in(&mut rng, x[0], x[n - 1])).collect();
    ev.case(hash_bits(&[&bits_of(&x), &bits_of_arr(&data)], &[T::NAME, "small"]), true);
    ev.count("strategy", "small:".to_string() + &spec.strat.name());
    let Outcome::Ok(base) = results1(&spec, &q) else { return };
    let lim = if T::MANT == 23 { 12 } else { 20 };
    let k = rng.irange(-lim, lim) as i32;
    let j = rng.irange(-lim, lim) as i32;
    let g = T::pow2(k);
    let f = T::pow2(j);
    let mut s2 = spec.clone();
    s2.x = Some(Array1::from(x.iter().map(|v| *v * g).collect::<Vec<_>>()));
    s2.data = data.mapv(|v| v * f);
    s2.strat = with_strat(&spec, |b| scale_bound(b, T::pow2(j - k), T::pow2(j - 2 * k)));
    let q2: Vec<T> = q.iter().map(|v| *v * g).collect();
    let mut c = Cmp { ev, case, replay: spec1_json(&spec).set("queries", hexes(q.iter().copied())), ok: true };
    c.bitwise(&format!("small-spline data*2^{j},axis*2^{k}"), &base, &results1(&s2, &q2), &|v| v * T::pow2(-j));
}

/// after an inexact transformation the axis must still be strictly increasing
fn fix_axis<T: Flt>(s: &mut Spec1<T>) {
    if let Some(x) = &mut s.x {
        let mut v = x.to_vec();
        fix_increasing(&mut v);
        *x = Array1::from(v);
    }
}

fn case2<T: Elem>(case: u64, args: &Args, ev: &mut Ev, log: &mut EventLog) {
    let mut rng = Rng::derive(args.seed, "C15", &[case]);
    let extrapolate = rng.chance(0.4);
    let (nx, mut ny) = (pick_n(&mut rng, 2, 9), pick_n(&mut rng, 2, 8));
    let (x, kx, sx) = grid_axis::<T>(&mut rng, nx);
    let (mut y, mut ky, mut sy) = grid_axis::<T>(&mut rng, ny);
    // a square grid whose axes share both end values but not the interior knots, queried on
    // the diagonal (the independent factors for x and y then separate the ends)
    let twin = (case / 4) % 3 == 1 && nx >= 3;
    if twin {
        ny = nx;
        sy = sx;
        let mut pool: Vec<i64> = (kx[0] + 1..kx[nx - 1]).collect();
        rng.shuffle(&mut pool);
        let mut inner: Vec<i64> = pool[..nx - 2].to_vec();
        inner.sort();
        ky = std::iter::once(kx[0]).chain(inner).chain(std::iter::once(kx[nx - 1])).collect();
        y = ky.iter().map(|&k| T::of(k as f64 * f64::pow2(-sy))).collect();
    }
    let lanes = gen_lane_shape(&mut rng, 2, false);
    let mut shape = vec![nx, ny];
    shape.extend(&lanes);
    let dcls = *rng.pick(&DataClass::ALL);
    let data = gen_data::<T>(&mut rng, &shape, dcls, (0, 0));
    let spec = Spec2::new(data.clone(), Some(Array1::from(x.clone())), Some(Array1::from(y.clone())), Strat2::Bilinear { extrapolate });
    let qx = grid_queries::<T>(&mut rng, &kx, sx, extrapolate, 24);
    let mut qy = grid_queries::<T>(&mut rng, &ky, sy, extrapolate, 24 + nx.max(ny));
    rng.shuffle(&mut qy);
    let m = qx.len().min(qy.len());
    let (mut qx, mut qy) = (qx[..m].to_vec(), qy[..m].to_vec());
    if twin {
        for q in grid_queries::<T>(&mut rng, &kx, sx, false, 16) {
            qx.push(q);
            qy.push(q);
        }
        ev.add("twin_end_grids_with_diagonal_queries", 1);
    }
    let h = hash_bits(&[&bits_of(&x), &bits_of(&y), &bits_of_arr(&data)], &[T::NAME]);
    ev.case(h, true);
    ev.count("strategy", spec.strat.name());
    ev.count("elem", T::NAME);
    ev.count("extrapolate", if extrapolate { "on" } else { "off" });
    let base = match results2(&spec, &qx, &qy) {
        Outcome::Ok(v) => v,
        o => {
            ev.violation("C15:base-problem-failed", &o.detail(), case, spec2_json(&spec));
            return;
        }
    };
    let mut c = Cmp { ev, case, replay: spec2_json(&spec), ok: true };
    let lim = if T::MANT == 23 { 12 } else { 20 };
    let (j, kxe, kye) = (rng.irange(-lim, lim) as i32, rng.irange(-lim, lim) as i32, rng.irange(-lim, lim) as i32);
    // independent factors for x, y and the data
    let mut s1 = spec.clone();
    s1.data = data.mapv(|v| v * T::pow2(j));
    s1.x = Some(Array1::from(x.iter().map(|v| *v * T::pow2(kxe)).collect::<Vec<_>>()));
    s1.y = Some(Array1::from(y.iter().map(|v| *v * T::pow2(kye)).collect::<Vec<_>>()));
    let qx1: Vec<T> = qx.iter().map(|v| *v * T::pow2(kxe)).collect();
    let qy1: Vec<T> = qy.iter().map(|v| *v * T::pow2(kye)).collect();
    c.bitwise(&format!("data*2^{j},x*2^{kxe},y*2^{kye}"), &base, &results2(&s1, &qx1, &qy1), &|v| v * T::pow2(-j));
    let mut s2 = spec.clone();
    s2.data = data.mapv(|v| -v);
    c.bitwise("negation", &base, &results2(&s2, &qx, &qy), &|v| -v);
    let (dx, dy) = (rng.irange(-3000, 3000), rng.irange(-3000, 3000));
    let shx = T::of(dx as f64 * f64::pow2(-sx));
    let shy = T::of(dy as f64 * f64::pow2(-sy));
    let exact = x.iter().chain(qx.iter()).all(|v| (v.f() + shx.f()) == (*v + shx).f()) && y.iter().chain(qy.iter()).all(|v| (v.f() + shy.f()) == (*v + shy).f());
    if exact {
        let mut s3 = spec.clone();
        s3.x = Some(Array1::from(x.iter().map(|v| *v + shx).collect::<Vec<_>>()));
        s3.y = Some(Array1::from(y.iter().map(|v| *v + shy).collect::<Vec<_>>()));
        let qx3: Vec<T> = qx.iter().map(|v| *v + shx).collect();
        let qy3: Vec<T> = qy.iter().map(|v| *v + shy).collect();
        c.bitwise(&format!("shift x {dx}*2^-{sx}, y {dy}*2^-{sy}"), &base, &results2(&s3, &qx3, &qy3), &|v| v);
    } else {
        c.ev.add("shift_skipped_not_exact", 1);
    }
    if !c.ok {
        return;
    }
    // inexact: superposition and data * 3, each against its own exact oracle
    let data2 = gen_data::<T>(&mut rng, &shape, DataClass::FullMantissa, (0, 0));
    let mut s4 = spec.clone();
    s4.data = &data + &data2;
    let mut s5 = spec.clone();
    s5.data = data.mapv(|v| v * T::of(3.0));
    for (name, sp) in [("sum-of-data-sets", &s4), ("data*3", &s5)] {
        if let Outcome::Ok(r) = results2(sp, &qx, &qy) {
            c.ev.count("inexact_transformation", name);
            c.ev.add("inexact_problems_logged", 1);
            log.push(&event2("C15", case, sp, &qx, &qy, &r, name, &["blend"]));
        }
    }
}

/// Whether a data set is accepted must not depend on its unit either: Periodic data whose end
/// rows differ by an ulp or by a sliver of the data's own scale, built in units 2^j apart, are
/// accepted in all units or in none (and since the ends differ: in none).
fn nearly_periodic(ev: &mut Ev) {
    use vh::ndarray_interp::interp1d::cubic_spline::{BoundaryCondition, CubicSpline};
    use vh::ndarray_interp::interp1d::Interp1D;
    let mut rng = Rng::derive(15, "C15-nearly-periodic", &[0]);
    for round in 0..300u64 {
        let n = 3 + rng.below(7);
        let e = rng.irange(-90, 90) as i32;
        let unit = 2f64.powi(e);
        let mut data: Vec<f64> = (0..n).map(|_| (rng.f01() * 2.0 - 1.0) * unit).collect();
        let first = data[0];
        let last = match round % 4 {
            0 => f64::from_bits(first.to_bits() + 1 + rng.below(3) as u64),
            1 => first + unit * 2f64.powi(-45 + rng.below(20) as i32),
            2 => first - unit * 2f64.powi(-30),
            _ => first * (1.0 + 2f64.powi(-40)),
        };
        if last == first {
            continue;
        }
        data[n - 1] = last;
        let x: Array1<f64> = (0..n).map(|i| i as f64 * 0.5 + if i > 0 { rng.f01() * 0.25 } else { 0.0 }).collect();
        let mut outcomes: Vec<(i32, bool)> = Vec::new();
        for j in [0i32, 35, -35, 70, -60] {
            let d: Array1<f64> = data.iter().map(|v| v * 2f64.powi(j)).collect();
            if d.iter().any(|v| !v.is_finite() || (*v != 0.0 && v.abs() < 1e-290)) {
                continue;
            }
            let ok = Interp1D::builder(d).x(x.clone()).strategy(CubicSpline::new().boundary(BoundaryCondition::Periodic)).build().is_ok();
            outcomes.push((j, ok));
        }
        ev.add("nearly_periodic_problems", 1);
        ev.add("nearly_periodic_builds", outcomes.len() as u64);
        if outcomes.iter().any(|(_, ok)| *ok != outcomes[0].1) {
            ev.violation(
                "C15:acceptance-depends-on-unit",
                &format!("Periodic data {:?} (ends differ by {:e}): accepted per unit 2^j: {:?}", data, (last - first).abs(), outcomes),
                9_900_000 + round,
                J::obj().set("round", round),
            );
        }
    }
}

fn main() {
    let args = Args::parse("C15");
    let n = args.budget(900, 100000);
    let mut args_main = args.clone();
    if args.only.map_or(false, |o| o >= 10_000_000) {
        args_main.only = Some(u64::MAX);
    }
    let ev = run_sharded(&args_main, n, |case, ev, log| {
        if case == u64::MAX {
            return;
        }
        let f32_ = case % 5 == 4;
        match (case % 4, f32_) {
            (0, false) => case1::<f64>(case, false, &args, ev, log),
            (0, true) => case1::<f32>(case, false, &args, ev, log),
            (3, false) => case2::<f64>(case, &args, ev, log),
            (3, true) => case2::<f32>(case, &args, ev, log),
            (_, false) => case1::<f64>(case, true, &args, ev, log),
            (_, true) => case1::<f32>(case, true, &args, ev, log),
        }
    });
    // a large number of cheap small-spline scale checks
    let n_small = args.budget(600000, 10000000);
    let mut args_small = args.clone();
    if let Some(o) = args.only {
        args_small.only = if o >= 10_000_000 { Some(o - 10_000_000) } else { None };
    }
    let ev_small = if args.only.map_or(true, |o| o >= 10_000_000) {
        run_sharded(&args_small, n_small, |case, ev, _log| {
            if case % 8 == 7 {
                case_small::<f32>(10_000_000 + case, &args, ev)
            } else {
                case_small::<f64>(10_000_000 + case, &args, ev)
            }
        })
    } else {
        Ev::new()
    };
    let mut ev = ev;
    ev.merge(ev_small);
    if args.blocks() {
        nearly_periodic(&mut ev);
    }
    ev.finish(
        &args,
        "Linear / CubicSpline (every whole-set boundary, Periodic, all 25 mixed pairs with derivative \
         values) / Bilinear on dyadic-grid axes (non-uniform), in range and (40%) extrapolated; exact \
         transformations: data*2^j, axis and queries*2^k (j,k in -20..20; derivative values converted), \
         both, negation, grid shifts, 2-D with independent factors for x and y - compared bitwise; \
         inexact: axis*{3,0.1,7.3}, axis+0.1, data*3, sums of two data sets - each checked against its own \
         exact oracle; plus a large number of small splines (n = 3..6) on full-mantissa non-uniform axes \
         under combined scale changes. Non-trivial = non-uniform axis; distinct by input hash.",
        J::obj(),
    );
}
