//! Classification of what a call into the crate did: Ok / Err(kind) / Panic.
//! Panics are caught at the API boundary; the default panic printer is silenced
//! (messages are kept per thread) so that expected panics do not flood the output.

use ndarray_interp::{BuilderError, InterpolateError};
use std::cell::RefCell;
use std::panic::{catch_unwind, AssertUnwindSafe};
use std::sync::Once;

#[derive(Clone, Debug, PartialEq)]
pub enum Outcome<V> {
    Ok(V),
    /// error kind (variant name) and message
    Err(String, String),
    Panic(String),
    /// the call cannot be expressed with these static types (the compiler would reject it)
    Untypeable,
}

impl<V> Outcome<V> {
    pub fn tag(&self) -> String {
        match self {
            Outcome::Ok(_) => "Ok".into(),
            Outcome::Err(k, _) => format!("Err({k})"),
            Outcome::Panic(_) => "Panic".into(),
            Outcome::Untypeable => "Untypeable".into(),
        }
    }
    pub fn is_ok(&self) -> bool {
        matches!(self, Outcome::Ok(_))
    }
    pub fn is_err(&self) -> bool {
        matches!(self, Outcome::Err(..))
    }
    pub fn is_panic(&self) -> bool {
        matches!(self, Outcome::Panic(_))
    }
    pub fn ok(self) -> Option<V> {
        match self {
            Outcome::Ok(v) => Some(v),
            _ => None,
        }
    }
    pub fn as_ok(&self) -> Option<&V> {
        match self {
            Outcome::Ok(v) => Some(v),
            _ => None,
        }
    }
    pub fn map<U>(self, f: impl FnOnce(V) -> U) -> Outcome<U> {
        match self {
            Outcome::Ok(v) => Outcome::Ok(f(v)),
            Outcome::Err(k, m) => Outcome::Err(k, m),
            Outcome::Panic(m) => Outcome::Panic(m),
            Outcome::Untypeable => Outcome::Untypeable,
        }
    }
    pub fn detail(&self) -> String {
        match self {
            Outcome::Ok(_) => "Ok".into(),
            Outcome::Err(k, m) => format!("Err({k}: {m})"),
            Outcome::Panic(m) => format!("Panic({m})"),
            Outcome::Untypeable => "Untypeable".into(),
        }
    }
}

thread_local! {
    static LAST_PANIC: RefCell<Option<String>> = const { RefCell::new(None) };
    static QUIET: RefCell<bool> = const { RefCell::new(false) };
}

static HOOK: Once = Once::new();

fn install_hook() {
    HOOK.call_once(|| {
        let default = std::panic::take_hook();
        std::panic::set_hook(Box::new(move |info| {
            let quiet = QUIET.with(|q| *q.borrow());
            if quiet {
                let msg = if let Some(s) = info.payload().downcast_ref::<&str>() {
                    s.to_string()
                } else if let Some(s) = info.payload().downcast_ref::<String>() {
                    s.clone()
                } else {
                    "<non-string panic payload>".to_string()
                };
                let loc = info
                    .location()
                    .map(|l| format!(" @ {}:{}", l.file(), l.line()))
                    .unwrap_or_default();
                LAST_PANIC.with(|p| *p.borrow_mut() = Some(format!("{msg}{loc}")));
            } else {
                default(info);
            }
        }));
    });
}

/// run `f`, catching a panic and returning its message
pub fn guard<R>(f: impl FnOnce() -> R) -> Result<R, String> {
    install_hook();
    let prev = QUIET.with(|q| std::mem::replace(&mut *q.borrow_mut(), true));
    LAST_PANIC.with(|p| *p.borrow_mut() = None);
    let r = catch_unwind(AssertUnwindSafe(f));
    QUIET.with(|q| *q.borrow_mut() = prev);
    match r {
        Ok(v) => Ok(v),
        Err(_) => Err(LAST_PANIC
            .with(|p| p.borrow_mut().take())
            .unwrap_or_else(|| "<panic>".into())),
    }
}

pub fn interp_err_kind(e: &InterpolateError) -> (&'static str, String) {
    match e {
        InterpolateError::OutOfBounds(m) => ("OutOfBounds", m.clone()),
    }
}

pub fn builder_err_kind(e: &BuilderError) -> (&'static str, String) {
    match e {
        BuilderError::NotEnoughData(m) => ("NotEnoughData", m.clone()),
        BuilderError::Monotonic(m) => ("Monotonic", m.clone()),
        BuilderError::ShapeError(m) => ("ShapeError", m.clone()),
        BuilderError::ValueError(m) => ("ValueError", m.clone()),
    }
}

/// guard a call returning `Result<V, InterpolateError>`
pub fn call_i<V>(f: impl FnOnce() -> Result<V, InterpolateError>) -> Outcome<V> {
    match guard(f) {
        Ok(Ok(v)) => Outcome::Ok(v),
        Ok(Err(e)) => {
            let (k, m) = interp_err_kind(&e);
            Outcome::Err(k.to_string(), m)
        }
        Err(p) => Outcome::Panic(p),
    }
}

/// guard a call returning `Result<V, BuilderError>`
pub fn call_b<V>(f: impl FnOnce() -> Result<V, BuilderError>) -> Outcome<V> {
    match guard(f) {
        Ok(Ok(v)) => Outcome::Ok(v),
        Ok(Err(e)) => {
            let (k, m) = builder_err_kind(&e);
            Outcome::Err(k.to_string(), m)
        }
        Err(p) => Outcome::Panic(p),
    }
}

/// guard a call that cannot fail except by panicking
pub fn call_p<V>(f: impl FnOnce() -> V) -> Outcome<V> {
    match guard(f) {
        Ok(v) => Outcome::Ok(v),
        Err(p) => Outcome::Panic(p),
    }
}
